//go:build verifsim

// Package triesim explores operation histories of the alias store (alias_trie.Trie over
// ordered_map.OrderedMap) instantiated with the REAL key predicates of the parser
// (tokenEqual / tokenLess, exported by an overlay-added file) against a plain list model.
// pgregory.net/rapid is the sole source of choice (seeded from VERIF_SEED by the driver),
// which gives shrinking and .fail replay files.
package triesim

import (
	"crypto/sha256"
	"encoding/json"
	"fmt"
	"os"
	"sort"
	"strings"
	"sync"
	"testing"

	"github.com/DDP-Projekt/Kompilierer/src/ddptypes"
	"github.com/DDP-Projekt/Kompilierer/src/parser"
	at "github.com/DDP-Projekt/Kompilierer/src/parser/alias_trie"
	"github.com/DDP-Projekt/Kompilierer/src/token"
	"pgregory.net/rapid"
)

var (
	tokEq   = parser.VerifTokenEqual
	tokLess = parser.VerifTokenLess
)

// ---- vocabulary -----------------------------------------------------------------------------

type vocabTok struct {
	name string
	tok  *token.Token
}

func param(name string, t ddptypes.Type, ref bool) vocabTok {
	return vocabTok{name, &token.Token{Type: token.ALIAS_PARAMETER, Literal: "<p>", AliasInfo: &ddptypes.ParameterType{Type: t, IsReference: ref}}}
}

func lit(tt token.TokenType, s string) vocabTok {
	return vocabTok{s, &token.Token{Type: tt, Literal: s}}
}

var vocab = func() []vocabTok {
	// distinct types that print alike: same-named Kombinationen / Typdefinitionen of two modules
	s1 := &ddptypes.StructType{Name: "Punkt", Fields: []ddptypes.StructField{{Name: "x", Type: ddptypes.ZAHL}}}
	s2 := &ddptypes.StructType{Name: "Punkt", Fields: []ddptypes.StructField{{Name: "x", Type: ddptypes.ZAHL}}}
	s3 := &ddptypes.StructType{Name: "Kreis"}
	d1 := &ddptypes.TypeDef{Name: "Nummer", Underlying: ddptypes.ZAHL}
	d2 := &ddptypes.TypeDef{Name: "Nummer", Underlying: ddptypes.ZAHL}
	a1 := &ddptypes.TypeAlias{Name: "Ganzzahl", Underlying: ddptypes.ZAHL} // equal to Zahl
	return []vocabTok{
		lit(token.IDENTIFIER, "a"), lit(token.IDENTIFIER, "b"), lit(token.IDENTIFIER, "c"),
		lit(token.SYMBOL, "+"), lit(token.SYMBOL, "*"),
		lit(token.INT, "1"), lit(token.STRING, "\"x\""),
		{"DER", &token.Token{Type: token.DER, Literal: "der"}}, {"der2", &token.Token{Type: token.DER, Literal: "Der"}},
		{"MIT", &token.Token{Type: token.MIT, Literal: "mit"}},
		param("<Zahl>", ddptypes.ZAHL, false), param("<Zahl&>", ddptypes.ZAHL, true),
		param("<Ganzzahl>", a1, false),
		param("<Text>", ddptypes.TEXT, false), param("<Kommazahl>", ddptypes.KOMMAZAHL, false),
		param("<Zahlen Liste>", ddptypes.ListType{ElementType: ddptypes.ZAHL}, false),
		param("<Text Liste&>", ddptypes.ListType{ElementType: ddptypes.TEXT}, true),
		param("<Nummer#1>", d1, false), param("<Nummer#2>", d2, false),
		param("<Punkt#1>", s1, false), param("<Punkt#2>", s2, false), param("<Punkt#2&>", s2, true),
		param("<Punkt#1 Liste>", ddptypes.ListType{ElementType: s1}, false), param("<Punkt#2 Liste>", ddptypes.ListType{ElementType: s2}, false),
		param("<Kreis>", s3, false),
		param("<Variable>", ddptypes.VARIABLE, false),
	}
}()

func keyName(k []int) string {
	var s []string
	for _, i := range k {
		s = append(s, vocab[i].name)
	}
	return strings.Join(s, " ")
}

func toks(k []int) []*token.Token {
	out := make([]*token.Token, len(k))
	for i, x := range k {
		// a fresh copy of the token: the store must work by the predicates, not by pointer identity
		c := *vocab[x].tok
		out[i] = &c
	}
	return out
}

func keysEqual(a, b []int) bool {
	if len(a) != len(b) {
		return false
	}
	for i := range a {
		if !tokEq(vocab[a[i]].tok, vocab[b[i]].tok) {
			return false
		}
	}
	return true
}

// ---- model -----------------------------------------------------------------------------------

type entry struct {
	key []int
	val *int
}

type store struct {
	trie  *at.Trie[*token.Token, *int]
	model []entry
}

func (s *store) find(k []int) int {
	for i := range s.model {
		if keysEqual(s.model[i].key, k) {
			return i
		}
	}
	return -1
}

func (s *store) insert(k []int, v *int) {
	if i := s.find(k); i >= 0 {
		s.model[i].val = v
	} else {
		s.model = append(s.model, entry{append([]int(nil), k...), v})
	}
	s.trie.Insert(toks(k), v)
}

func (s *store) copy() *store {
	n := &store{trie: at.Copy(s.trie)}
	n.model = append(n.model, s.model...)
	return n
}

// search replays stream exactly as parser.alias() drives the trie (cursor per node index)
func (s *store) search(stream []int) []*int {
	st := toks(stream)
	cur := 0
	var starts []int
	return s.trie.Search(func(node int, _ *token.Token) (*token.Token, bool) {
		if node < len(starts) {
			if starts[node] == -1 {
				starts[node] = cur
			} else {
				cur = starts[node]
			}
		} else {
			for len(starts) <= node {
				starts = append(starts, -1)
			}
			starts[node] = cur
		}
		if cur >= len(st) {
			return nil, false
		}
		t := st[cur]
		cur++
		return t, true
	})
}

func (s *store) check(t *rapid.T, where string) {
	for _, e := range s.model {
		ok, v := s.trie.Contains(toks(e.key))
		if !ok || v == nil {
			t.Fatalf("%s: inserted alias [%s] is no longer found by Contains (ok=%t)", where, keyName(e.key), ok)
		}
		if v != e.val {
			t.Fatalf("%s: Contains([%s]) returns value %d, last inserted under an equal key was %d", where, keyName(e.key), *v, *e.val)
		}
		// callable: a call site consisting of exactly these tokens must find it
		found := false
		for _, r := range s.search(e.key) {
			if r == e.val {
				found = true
			}
		}
		if !found {
			t.Fatalf("%s: alias [%s] is not found by Search at a matching call site", where, keyName(e.key))
		}
	}
}

// ---- statistics ------------------------------------------------------------------------------

var (
	statMu    sync.Mutex
	histories int
	ops       int
	shapes    = map[[8]byte]bool{}
	samples   []string
	inconsist int
)

func recordShape(s *store, trace []string) {
	var ks []string
	for _, e := range s.model {
		ks = append(ks, keyName(e.key))
	}
	sort.Strings(ks)
	h := sha256.Sum256([]byte(strings.Join(ks, "\n")))
	var k [8]byte
	copy(k[:], h[:8])
	statMu.Lock()
	shapes[k] = true
	histories++
	ops += len(trace)
	if len(samples) < 4 && len(trace) >= 6 {
		samples = append(samples, strings.Join(trace, "; "))
	}
	statMu.Unlock()
}

func TestMain(m *testing.M) {
	code := m.Run()
	if p := os.Getenv("TRIESIM_STATS"); p != "" {
		b, _ := json.Marshal(map[string]any{"histories": histories, "operations": ops, "distinct_shapes": len(shapes), "samples": samples, "vocabulary": len(vocab), "unordered_unequal_pairs": inconsist})
		os.WriteFile(p, b, 0o644)
	}
	os.Exit(code)
}

// ---- the state machine -------------------------------------------------------------------------

func genKey(t *rapid.T, label string) []int {
	n := rapid.IntRange(1, 5).Draw(t, label+"-len")
	k := make([]int, n)
	for i := range k {
		k[i] = rapid.IntRange(0, len(vocab)-1).Draw(t, label)
	}
	return k
}

func TestTrieModel(t *testing.T) {
	// how many vocabulary pairs are unequal yet unordered (the population the property is about)
	n := 0
	for i := range vocab {
		for j := range vocab {
			a, b := vocab[i].tok, vocab[j].tok
			if i < j && !tokEq(a, b) && !tokLess(a, b) && !tokLess(b, a) {
				n++
			}
		}
	}
	inconsist = n
	rapid.Check(t, func(t *rapid.T) {
		stores := []*store{{trie: at.New[*token.Token, *int](tokEq, tokLess)}}
		var trace []string
		nops := rapid.IntRange(1, 30).Draw(t, "nops")
		next := 0
		for i := 0; i < nops; i++ {
			s := stores[rapid.IntRange(0, len(stores)-1).Draw(t, "store")]
			switch rapid.IntRange(0, 9).Draw(t, "op") {
			case 0, 1, 2, 3, 4: // insert (biased: re-insert of an existing key, extension of an existing key)
				var k []int
				if len(s.model) > 0 && rapid.IntRange(0, 3).Draw(t, "reuse") == 0 {
					e := s.model[rapid.IntRange(0, len(s.model)-1).Draw(t, "which")]
					k = append([]int(nil), e.key...)
					if rapid.Bool().Draw(t, "extend") && len(k) < 5 {
						k = append(k, rapid.IntRange(0, len(vocab)-1).Draw(t, "ext"))
					}
				} else {
					k = genKey(t, "key")
				}
				next++
				v := new(int)
				*v = next
				// the parser inserts only after Contains said "not there"; a duplicate must be detected
				exists := s.find(k) >= 0
				ok, cur := s.trie.Contains(toks(k))
				if exists != (ok && cur != nil) {
					t.Fatalf("duplicate check: alias [%s] %s in scope but Contains reports ok=%t value-present=%t (after: %s)",
						keyName(k), map[bool]string{true: "is", false: "is not"}[exists], ok, cur != nil, strings.Join(trace, "; "))
				}
				s.insert(k, v)
				trace = append(trace, fmt.Sprintf("insert[%s]=%d", keyName(k), next))
			case 5, 6: // lookup of an arbitrary key
				k := genKey(t, "probe")
				ok, v := s.trie.Contains(toks(k))
				i := s.find(k)
				if (i >= 0) != (ok && v != nil) {
					t.Fatalf("Contains([%s]) = (%t, present=%t) but the model says present=%t (after: %s)", keyName(k), ok, v != nil, i >= 0, strings.Join(trace, "; "))
				}
				if i >= 0 && v != s.model[i].val {
					t.Fatalf("Contains([%s]) returned %d, expected %d", keyName(k), *v, *s.model[i].val)
				}
				trace = append(trace, fmt.Sprintf("contains[%s]", keyName(k)))
			case 7, 8: // search with a token stream: exactly the values of all inserted keys that are prefixes of the stream
				var stream []int
				if len(s.model) > 0 && rapid.Bool().Draw(t, "from-model") {
					e := s.model[rapid.IntRange(0, len(s.model)-1).Draw(t, "which")]
					stream = append([]int(nil), e.key...)
					for j, m := 0, rapid.IntRange(0, 2).Draw(t, "tail"); j < m; j++ {
						stream = append(stream, rapid.IntRange(0, len(vocab)-1).Draw(t, "tailtok"))
					}
				} else {
					stream = genKey(t, "stream")
				}
				got := map[int]int{}
				for _, v := range s.search(stream) {
					if v == nil {
						t.Fatalf("Search returned a nil value")
					}
					got[*v]++
				}
				want := map[int]int{}
				for _, e := range s.model {
					if len(e.key) <= len(stream) && keysEqual(e.key, stream[:len(e.key)]) {
						want[*e.val]++
					}
				}
				if fmt.Sprint(got) != fmt.Sprint(want) {
					t.Fatalf("Search([%s]) returned values %v, the model expects %v (after: %s)", keyName(stream), got, want, strings.Join(trace, "; "))
				}
				trace = append(trace, fmt.Sprintf("search[%s]", keyName(stream)))
			case 9: // copy (generic instantiation copies the alias store and inserts into the copy)
				if len(stores) < 3 {
					stores = append(stores, s.copy())
					trace = append(trace, "copy")
				}
			}
			for si, s := range stores {
				s.check(t, fmt.Sprintf("store %d after %s", si, strings.Join(trace, "; ")))
			}
		}
		recordShape(stores[0], trace)
	})
}
