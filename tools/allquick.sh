#!/bin/bash
# usage: tools/allquick.sh <seed>...   run every quick check for each seed; print one line per check
cd "$(dirname "$0")/.."
for s in "$@"; do
  for p in C03 C07 C05 C11 C16 C10 C20; do
    t0=$(date +%s)
    out=$(VERIF_SEED=$s ./check $p quick 2>&1); rc=$?
    echo "seed=$s $p rc=$rc $(( $(date +%s)-t0 ))s  $(echo "$out" | grep -c '^VIOLATION') violations"
    echo "$out" | grep -a -A3 '^VIOLATION\|harness trouble\|no heap report' | cut -c1-300
  done
done
