// rewriter generates the map-iteration-order seam: for every Go file of the repository (outside
// tests and the vendored LLVM bindings) that ranges over a map or calls maps.Keys/Values/All, it
// writes an instrumented copy in which the order comes from verifsim, and an overlay.json for
// `go build -overlay`.  The rewrite is driven by types, not by location, so map iterations
// introduced by a change to the repository are instrumented as well.
//
//	rewriter -repo /repo -out <dir> [-patterns ./src/...,./cmd/...]
package main

import (
	"encoding/json"
	"flag"
	"fmt"
	"go/ast"
	"go/token"
	"go/types"
	"os"
	"path/filepath"
	"sort"
	"strings"

	"golang.org/x/tools/go/packages"
)

type edit struct {
	pos, end int // byte offsets in the original file; pos==end is an insertion
	text     string
	prio     int // order among insertions at the same offset
}

type site struct {
	Site    string `json:"site"`
	Kind    string `json:"kind"`
	KeyType string `json:"key_type"`
	Func    string `json:"func"`
}

func main() {
	repo := flag.String("repo", "/repo", "repository root")
	out := flag.String("out", "", "output directory")
	pats := flag.String("patterns", "./src/...,./cmd/kddp/...,./cmd/internal/...", "package patterns")
	tmpl := flag.String("tmpl", "", "verifsim template")
	flag.Parse()
	if *out == "" || *tmpl == "" {
		fmt.Fprintln(os.Stderr, "rewriter: -out and -tmpl required")
		os.Exit(2)
	}
	os.RemoveAll(*out)
	os.MkdirAll(*out, 0o755)
	cfg := &packages.Config{
		Mode: packages.NeedName | packages.NeedFiles | packages.NeedCompiledGoFiles | packages.NeedSyntax | packages.NeedTypes | packages.NeedTypesInfo | packages.NeedImports,
		Dir:  *repo,
		Env:  os.Environ(),
		BuildFlags: []string{"-tags=byollvm"},
	}
	pkgs, err := packages.Load(cfg, strings.Split(*pats, ",")...)
	if err != nil {
		fmt.Fprintln(os.Stderr, "rewriter: load:", err)
		os.Exit(2)
	}
	bad := false
	for _, p := range pkgs {
		for _, e := range p.Errors {
			// the cgo LLVM bindings may not type-check without cgo processing; only errors in files we rewrite matter
			if strings.Contains(p.PkgPath, "/compiler/llvm") {
				continue
			}
			fmt.Fprintf(os.Stderr, "rewriter: %s: %v\n", p.PkgPath, e)
			bad = true
		}
	}
	if bad {
		os.Exit(2)
	}
	overlay := map[string]string{}
	var sites []site
	nfile := 0
	for _, p := range pkgs {
		if strings.Contains(p.PkgPath, "/compiler/llvm") || strings.HasSuffix(p.PkgPath, "/verifsim") {
			continue
		}
		for i, f := range p.Syntax {
			if i >= len(p.CompiledGoFiles) {
				continue
			}
			fname := p.Fset.Position(f.Pos()).Filename
			if !strings.HasPrefix(fname, *repo+"/") || strings.HasSuffix(fname, "_test.go") {
				continue
			}
			src, err := os.ReadFile(fname)
			if err != nil {
				continue
			}
			rel := strings.TrimPrefix(fname, *repo+"/")
			edits, fsites, err := rewriteFile(p, f, src, rel)
			if err != nil {
				fmt.Fprintf(os.Stderr, "rewriter: %s: %v\n", rel, err)
				os.Exit(2)
			}
			if len(edits) == 0 {
				continue
			}
			sites = append(sites, fsites...)
			nsrc := apply(src, edits)
			nfile++
			outName := filepath.Join(*out, strings.ReplaceAll(rel, "/", "__"))
			if err := os.WriteFile(outName, nsrc, 0o644); err != nil {
				fmt.Fprintln(os.Stderr, err)
				os.Exit(2)
			}
			overlay[fname] = outName
		}
	}
	// the verifsim package itself
	tb, err := os.ReadFile(*tmpl)
	if err != nil {
		fmt.Fprintln(os.Stderr, err)
		os.Exit(2)
	}
	vs := filepath.Join(*out, "verifsim.go")
	os.WriteFile(vs, tb, 0o644)
	overlay[filepath.Join(*repo, "src/verifsim/verifsim.go")] = vs
	// exports of unexported key predicates for the alias-store exploration (triesim)
	pe := filepath.Join(*out, "parser_verif_export.go")
	os.WriteFile(pe, []byte("package parser\n\n// added by the verification overlay only\nvar (\n\tVerifTokenEqual = tokenEqual\n\tVerifTokenLess  = tokenLess\n)\n"), 0o644)
	overlay[filepath.Join(*repo, "src/parser/verif_export.go")] = pe
	ob, _ := json.MarshalIndent(map[string]any{"Replace": overlay}, "", " ")
	os.WriteFile(filepath.Join(*out, "overlay.json"), ob, 0o644)
	sort.Slice(sites, func(i, j int) bool { return sites[i].Site < sites[j].Site })
	sb, _ := json.MarshalIndent(sites, "", " ")
	os.WriteFile(filepath.Join(*out, "sites.json"), sb, 0o644)
	fmt.Printf("rewriter: %d sites in %d files\n", len(sites), nfile)
}

func apply(src []byte, edits []edit) []byte {
	sort.SliceStable(edits, func(i, j int) bool {
		if edits[i].pos != edits[j].pos {
			return edits[i].pos < edits[j].pos
		}
		return edits[i].prio < edits[j].prio
	})
	var out []byte
	last := 0
	for _, e := range edits {
		if e.pos < last {
			panic(fmt.Sprintf("overlapping edits at %d", e.pos))
		}
		out = append(out, src[last:e.pos]...)
		out = append(out, e.text...)
		last = e.end
	}
	return append(out, src[last:]...)
}

// mapOf returns the map type behind t (also through named types and type parameters), or nil.
func mapOf(t types.Type) *types.Map {
	if t == nil {
		return nil
	}
	switch u := types.Unalias(t).Underlying().(type) {
	case *types.Map:
		return u
	case *types.Interface:
		// a type parameter: core type of its constraint
		if tp, ok := types.Unalias(t).(*types.TypeParam); ok {
			var m *types.Map
			iface := tp.Constraint().Underlying().(*types.Interface)
			for i := 0; i < iface.NumEmbeddeds(); i++ {
				switch e := iface.EmbeddedType(i).(type) {
				case *types.Union:
					for j := 0; j < e.Len(); j++ {
						if mm, ok := e.Term(j).Type().Underlying().(*types.Map); ok {
							m = mm
						} else {
							return nil
						}
					}
				default:
					if mm, ok := e.Underlying().(*types.Map); ok {
						m = mm
					}
				}
			}
			return m
		}
		_ = u
	}
	return nil
}

func simpleExpr(e ast.Expr) bool {
	switch x := e.(type) {
	case *ast.Ident:
		return true
	case *ast.SelectorExpr:
		return simpleExpr(x.X)
	case *ast.ParenExpr:
		return simpleExpr(x.X)
	case *ast.StarExpr:
		return simpleExpr(x.X)
	case *ast.IndexExpr:
		return simpleExpr(x.X) && simpleExpr(x.Index)
	case *ast.BasicLit:
		return true
	}
	return false
}

func rewriteFile(p *packages.Package, f *ast.File, src []byte, rel string) ([]edit, []site, error) {
	fset := p.Fset
	off := func(pos token.Pos) int { return fset.Position(pos).Offset }
	text := func(n ast.Node) string { return string(src[off(n.Pos()):off(n.End())]) }
	var edits []edit
	var sites []site
	tmp := 0
	usesMapsPkg := map[string]bool{}
	// parents for label detection and enclosing function names
	labeled := map[ast.Stmt]bool{}
	var funcStack []string
	var rerr error
	var visit func(n ast.Node) bool
	visit = func(n ast.Node) bool {
		switch x := n.(type) {
		case *ast.LabeledStmt:
			labeled[x.Stmt] = true
		case *ast.FuncDecl:
			funcStack = append(funcStack, x.Name.Name)
			if x.Body != nil {
				ast.Inspect(x.Body, visit)
			}
			funcStack = funcStack[:len(funcStack)-1]
			return false
		case *ast.RangeStmt:
			tv, ok := p.TypesInfo.Types[x.X]
			if !ok {
				return true
			}
			m := mapOf(tv.Type)
			if m == nil {
				return true
			}
			line := fset.Position(x.For).Line
			st := fmt.Sprintf("%s:%d", rel, line)
			fn := ""
			if len(funcStack) > 0 {
				fn = funcStack[len(funcStack)-1]
			}
			sites = append(sites, site{Site: st, Kind: "range", KeyType: m.Key().String(), Func: fn})
			mexpr := text(x.X)
			pre, post := "", ""
			if !simpleExpr(x.X) {
				if labeled[x] {
					rerr = fmt.Errorf("%s: labeled range over a non-trivial map expression cannot be instrumented", st)
					return false
				}
				tmp++
				name := fmt.Sprintf("__vsm%d", tmp)
				pre = fmt.Sprintf("{ %s := %s; ", name, mexpr)
				post = " }"
				mexpr = name
			}
			tmp++
			kname, vname := "", ""
			if id, ok := x.Key.(*ast.Ident); ok && x.Key != nil && id.Name != "_" && x.Tok == token.DEFINE {
				kname = id.Name
			}
			if x.Value != nil {
				if id, ok := x.Value.(*ast.Ident); !ok || id.Name != "_" {
					vname = text(x.Value)
				}
			}
			kvar := kname
			if kvar == "" {
				kvar = fmt.Sprintf("__vsk%d", tmp)
			}
			header := fmt.Sprintf("%sfor _, %s := range verifsim.Order(%s, %q) {", pre, kvar, mexpr, st)
			prologue := ""
			okv := fmt.Sprintf("__vsok%d", tmp)
			switch {
			case x.Tok == token.DEFINE || x.Tok == token.ILLEGAL:
				if vname != "" {
					prologue = fmt.Sprintf(" %s, %s := %s[%s]; if !%s { continue };", vname, okv, mexpr, kvar, okv)
				} else {
					prologue = fmt.Sprintf(" if _, %s := %s[%s]; !%s { continue };", okv, mexpr, kvar, okv)
				}
			case x.Tok == token.ASSIGN:
				prologue = fmt.Sprintf(" var %s bool;", okv)
				if x.Key != nil {
					if id, ok := x.Key.(*ast.Ident); !ok || id.Name != "_" {
						prologue += fmt.Sprintf(" %s = %s;", text(x.Key), kvar)
					}
				}
				if vname != "" {
					prologue += fmt.Sprintf(" %s, %s = %s[%s];", vname, okv, mexpr, kvar)
				} else {
					prologue += fmt.Sprintf(" _, %s = %s[%s];", okv, mexpr, kvar)
				}
				prologue += fmt.Sprintf(" if !%s { continue };", okv)
			}
			edits = append(edits, edit{pos: off(x.For), end: off(x.Body.Lbrace) + 1, text: header + prologue})
			if post != "" {
				edits = append(edits, edit{pos: off(x.Body.Rbrace) + 1, end: off(x.Body.Rbrace) + 1, text: post})
			}
			// the range expression itself is replaced; do not descend into it, but do into the body
			ast.Inspect(x.Body, visit)
			return false
		case *ast.CallExpr:
			sel, ok := x.Fun.(*ast.SelectorExpr)
			if !ok {
				return true
			}
			id, ok := sel.X.(*ast.Ident)
			if !ok {
				return true
			}
			pn, ok := p.TypesInfo.Uses[id].(*types.PkgName)
			if !ok {
				return true
			}
			path := pn.Imported().Path()
			if path != "maps" && path != "golang.org/x/exp/maps" {
				return true
			}
			repl := ""
			switch sel.Sel.Name {
			case "Keys":
				repl = "Keys"
			case "Values":
				repl = "Values"
			case "All":
				if path == "maps" {
					repl = "All"
				}
			}
			if repl == "" || len(x.Args) != 1 {
				return true
			}
			if path == "maps" {
				repl += "Seq"
			}
			line := fset.Position(x.Pos()).Line
			st := fmt.Sprintf("%s:%d", rel, line)
			fn := ""
			if len(funcStack) > 0 {
				fn = funcStack[len(funcStack)-1]
			}
			kt := ""
			if m := mapOf(p.TypesInfo.Types[x.Args[0]].Type); m != nil {
				kt = m.Key().String()
			}
			sites = append(sites, site{Site: st, Kind: "maps." + sel.Sel.Name, KeyType: kt, Func: fn})
			edits = append(edits, edit{pos: off(x.Fun.Pos()), end: off(x.Fun.End()), text: "verifsim." + repl})
			edits = append(edits, edit{pos: off(x.Rparen), end: off(x.Rparen), text: fmt.Sprintf(", %q", st)})
			usesMapsPkg[id.Name] = true
		}
		return true
	}
	ast.Inspect(f, visit)
	if rerr != nil {
		return nil, nil, rerr
	}
	if len(edits) == 0 {
		return nil, nil, nil
	}
	// import of verifsim right after the package clause
	edits = append(edits, edit{pos: off(f.Name.End()), end: off(f.Name.End()), text: "\n\nimport verifsim \"github.com/DDP-Projekt/Kompilierer/src/verifsim\"\n", prio: -1})
	// keep possibly no longer used maps imports alive
	if len(usesMapsPkg) > 0 {
		tail := "\n"
		var names []string
		for n := range usesMapsPkg {
			names = append(names, n)
		}
		sort.Strings(names)
		for _, n := range names {
			tail += fmt.Sprintf("var _ = %s.Clone[map[int]int, int, int]\n", n)
		}
		edits = append(edits, edit{pos: len(src), end: len(src), text: tail})
	}
	return edits, sites, nil
}
