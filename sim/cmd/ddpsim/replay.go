package main

import (
	"encoding/json"
	"fmt"
	"os"
	"path/filepath"
	"time"
)

// runReplay re-executes a replay file against the current /repo in a fresh process and exits 1
// iff the same invariant fails with the same signature.
func runReplay(path string) int {
	b, err := os.ReadFile(path)
	if err != nil {
		infra("cannot read %s: %v", path, err)
	}
	var head struct {
		Property string `json:"property"`
		Engine   string `json:"engine"`
		Inv      string `json:"inv"`
		Sig      string `json:"sig"`
	}
	if err := json.Unmarshal(b, &head); err != nil {
		infra("replay file does not parse: %v", err)
	}
	switch head.Engine {
	case "srcsim":
		bin, err := buildFrontw(false)
		if err != nil {
			infra("%v", err)
		}
		pool := &Pool{Bin: bin, Env: []string{"DDPPATH=" + filepath.Join(repoRoot(), "lib/stdlib")}, Workers: 1, WorkRoot: workRoot, Stage1: 30 * time.Second, ASLimit: 8192}
		ok, rp := replayStored(pool, path)
		if ok {
			fmt.Printf("VIOLATION property=%s replay=%s\n  reproduced: %s %q\n", rp.Property, path, rp.Inv, rp.Sig)
			return 1
		}
		fmt.Printf("not reproduced: %s %q does not fail on the current tree\n", rp.Inv, rp.Sig)
		return 0
	}
	if head.Engine == "srcsim-cli" {
		if replayCLI(path) {
			fmt.Printf("VIOLATION property=%s replay=%s\n  reproduced: %s %q\n", head.Property, path, head.Inv, head.Sig)
			return 1
		}
		fmt.Printf("not reproduced: %s %q does not fail on the current tree\n", head.Inv, head.Sig)
		return 0
	}
	if head.Engine == "ordersim" {
		bin, err := buildFrontw(true)
		if err != nil {
			infra("%v", err)
		}
		pool := &Pool{Bin: bin, Env: []string{"DDPPATH=" + filepath.Join(repoRoot(), "lib/stdlib")}, Workers: 1, WorkRoot: workRoot, Stage1: 120 * time.Second, ASLimit: 8192}
		if replayOrderStored(pool, path) {
			fmt.Printf("VIOLATION property=%s replay=%s\n  reproduced: %s %q\n", head.Property, path, head.Inv, head.Sig)
			return 1
		}
		fmt.Printf("not reproduced: %s %q does not fail on the current tree\n", head.Inv, head.Sig)
		return 0
	}
	if head.Engine == "ordersim-b" {
		if ok, _ := replayB(path); ok {
			fmt.Printf("VIOLATION property=%s replay=%s\n  reproduced: %s %q\n", head.Property, path, head.Inv, head.Sig)
			return 1
		}
		fmt.Printf("not reproduced: %s %q does not fail on the current tree\n", head.Inv, head.Sig)
		return 0
	}
	if head.Engine == "triesim" || head.Engine == "c20sys" {
		if replayC20Stored(path) {
			fmt.Printf("VIOLATION property=%s replay=%s\n  reproduced: %s %q\n", head.Property, path, head.Inv, head.Sig)
			return 1
		}
		fmt.Printf("not reproduced: %s %q does not fail on the current tree\n", head.Inv, head.Sig)
		return 0
	}
	if head.Engine == "c10" {
		if replayC10(path) {
			fmt.Printf("VIOLATION property=%s replay=%s\n  reproduced: %s %q\n", head.Property, path, head.Inv, head.Sig)
			return 1
		}
		fmt.Printf("not reproduced: %s %q does not fail on the current tree\n", head.Inv, head.Sig)
		return 0
	}
	if head.Engine == "heapsim-c11" {
		tc := buildToolchain()
		if replayC11Stored(tc, path) {
			fmt.Printf("VIOLATION property=%s replay=%s\n  reproduced: %s %q\n", head.Property, path, head.Inv, head.Sig)
			return 1
		}
		fmt.Printf("not reproduced: %s %q does not fail on the current tree\n", head.Inv, head.Sig)
		return 0
	}
	if head.Engine == "heapsim" {
		tc := buildToolchain()
		if replayHeapStored(tc, path) {
			fmt.Printf("VIOLATION property=%s replay=%s\n  reproduced: %s %q\n", head.Property, path, head.Inv, head.Sig)
			return 1
		}
		fmt.Printf("not reproduced: %s %q does not fail on the current tree\n", head.Inv, head.Sig)
		return 0
	}
	infra("unknown engine %q in replay file", head.Engine)
	return 2
}

func runSelftest(args []string) int { return runSelftestReal(args) }
