#include <stdint.h>
int64_t fb(int64_t x) { return x * 2; }
