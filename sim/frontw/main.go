// frontw is the sacrificial frontend worker: it executes Parse calls of the real
// frontend from /repo on simulated disks and evaluates the per-call invariants
// (C03 return-normally, C07 I1–I3).  A Go stack overflow or fatal error kills it;
// the driver then knows from the BEGIN line which run did it.
package main

import (
	"bufio"
	"bytes"
	"encoding/json"
	"fmt"
	"os"
	"path/filepath"
	"regexp"
	"runtime"
	"runtime/debug"
	"runtime/pprof"
	"sort"
	"strconv"
	"strings"
	"syscall"
	"time"
	"unicode/utf8"

	"ddpsim/fwproto"
	"ddpsim/simdisk"

	"github.com/DDP-Projekt/Kompilierer/src/ast"
	"github.com/DDP-Projekt/Kompilierer/src/ast/annotators"
	"github.com/DDP-Projekt/Kompilierer/src/ddperror"
	"github.com/DDP-Projekt/Kompilierer/src/ddppath"
	"github.com/DDP-Projekt/Kompilierer/src/parser"
	"github.com/DDP-Projekt/Kompilierer/src/token"
)

var (
	workDir   string
	baseCache = map[string]*simdisk.Tree{}
	altCache  = map[string][]byte{}
)

func main() {
	workDir = os.Getenv("DDPSIM_WORK")
	if workDir == "" {
		fmt.Fprintln(os.Stderr, "frontw: DDPSIM_WORK not set")
		os.Exit(2)
	}
	debug.SetMaxStack(256 << 20)
	debug.SetGCPercent(200)
	if s := os.Getenv("DDPSIM_CPU_LIMIT"); s != "" {
		n, _ := strconv.Atoi(s)
		// hard limit (kernel) a little above the soft one below, which reports where the frontend is spinning
		lim := syscall.Rlimit{Cur: uint64(n + 20), Max: uint64(n + 20)}
		syscall.Setrlimit(0 /* RLIMIT_CPU */, &lim)
		go func() {
			sampled := 0
			for {
				time.Sleep(500 * time.Millisecond)
				var ru syscall.Rusage
				syscall.Getrusage(0, &ru)
				cpu := float64(ru.Utime.Sec+ru.Stime.Sec) + float64(ru.Utime.Usec+ru.Stime.Usec)/1e6
				if cpu >= float64(n)-5+float64(sampled) && sampled < 5 {
					// samples of the stack one CPU-second apart: what all of them have in common is where the frontend spins
					sampled++
					fmt.Fprintf(os.Stderr, "cpu sample:\n")
					pprof.Lookup("goroutine").WriteTo(os.Stderr, 2)
				}
				if cpu >= float64(n) {
					fmt.Fprintf(os.Stderr, "cpu limit: did not return within %d CPU-seconds\n", n)
					pprof.Lookup("goroutine").WriteTo(os.Stderr, 2)
					os.Exit(3)
				}
			}
		}()
	}
	if s := os.Getenv("DDPSIM_AS_LIMIT_MB"); s != "" {
		n, _ := strconv.Atoi(s)
		lim := syscall.Rlimit{Cur: uint64(n) << 20, Max: uint64(n) << 20}
		syscall.Setrlimit(9 /* RLIMIT_AS */, &lim)
	}
	in := bufio.NewReaderSize(os.Stdin, 1<<20)
	out := bufio.NewWriterSize(os.Stdout, 1<<20)
	for {
		line, err := in.ReadBytes('\n')
		if len(line) > 1 {
			var job fwproto.Job
			if jerr := json.Unmarshal(line, &job); jerr != nil {
				fmt.Fprintf(os.Stderr, "frontw: bad job: %v\n", jerr)
				os.Exit(2)
			}
			fmt.Fprintf(out, "BEGIN %d\n", job.ID)
			out.Flush()
			res := runJob(&job)
			b, _ := json.Marshal(res)
			out.WriteString("END ")
			out.Write(b)
			out.WriteByte('\n')
			out.Flush()
		}
		if err != nil {
			return
		}
	}
}

func loadBase(dir string) (*simdisk.Tree, error) {
	if t, ok := baseCache[dir]; ok {
		return t, nil
	}
	t, err := simdisk.Load(dir)
	if err != nil {
		return nil, err
	}
	baseCache[dir] = t
	return t, nil
}

func loadAlt(p string) []byte {
	if p == "" {
		return nil
	}
	if b, ok := altCache[p]; ok {
		return b
	}
	b, _ := os.ReadFile(p)
	altCache[p] = b
	return b
}

// BuildTree computes the simulated disk of a job (pure function of the job and /repo).
func buildTree(job *fwproto.Job) (*simdisk.Tree, error) {
	var t *simdisk.Tree
	if job.Tree != nil {
		t = job.Tree
	} else {
		b, err := loadBase(job.Base)
		if err != nil {
			return nil, err
		}
		t = b
		if job.Only != nil {
			t = &simdisk.Tree{Files: map[string][]byte{}}
			for _, f := range job.Only {
				if c, ok := b.Files[f]; ok {
					t.Files[f] = c
				}
			}
		}
	}
	alt := loadAlt(job.Alt)
	for _, f := range job.Faults {
		t = simdisk.Apply(t, f, alt)
	}
	return t, nil
}

func runJob(job *fwproto.Job) (res fwproto.Result) {
	res.ID = job.ID
	runDir := filepath.Join(workDir, fmt.Sprintf("r%d", job.ID))
	tree, err := buildTree(job)
	if err != nil {
		res.Infra = "build tree: " + err.Error()
		return
	}
	os.RemoveAll(runDir)
	if err := tree.Materialise(runDir); err != nil {
		res.Infra = "materialise: " + err.Error()
		return
	}
	if !job.Keep {
		defer os.RemoveAll(runDir)
	}
	steps := job.Steps
	if len(steps) == 0 {
		steps = []fwproto.Step{{Fresh: true}}
	}
	var modules map[string]*ast.Module
	alt := loadAlt(job.Alt)
	for i := range steps {
		st := &steps[i]
		// disk mutations of this step
		if len(st.Writes) > 0 || len(st.Removes) > 0 || len(st.Faults) > 0 {
			tree = tree.Clone()
			for _, r := range st.Removes {
				delete(tree.Files, r)
				os.Remove(filepath.Join(runDir, r))
			}
			ks := make([]string, 0, len(st.Writes))
			for k := range st.Writes {
				ks = append(ks, k)
			}
			sort.Strings(ks)
			for _, k := range ks {
				tree.Files[k] = st.Writes[k]
			}
			for _, f := range st.Faults {
				tree = simdisk.Apply(tree, f, alt)
			}
			// rewrite the disk completely: simplest way to be exact
			os.RemoveAll(runDir)
			if err := tree.Materialise(runDir); err != nil {
				res.Infra = "materialise step: " + err.Error()
				return
			}
		}
		if st.Fresh || modules == nil {
			modules = map[string]*ast.Module{}
		}
		root := job.Root
		if st.Root != "" {
			root = st.Root
		}
		res.Calls = append(res.Calls, parseCall(job, st, runDir, root, modules))
	}
	if job.WarnOnly && len(res.Calls) >= 2 {
		first, last := &res.Calls[0], &res.Calls[len(res.Calls)-1]
		failed := func(c *fwproto.Call) (bool, *fwproto.Diag) {
			for i := range c.Diags {
				if c.Diags[i].Level == 2 {
					return true, &c.Diags[i]
				}
			}
			return c.Err != "" || c.Faulty, nil
		}
		f0, d0 := failed(first)
		if f1, _ := failed(last); f0 && !f1 && first.Err == "" && last.Err == "" {
			sig, detail := "warning-hides-error|failed-without-error", "the program is rejected; with a placeholder statement '...' (accepted with a warning) in one block it is accepted"
			if d0 != nil {
				sig = fmt.Sprintf("warning-hides-error|%d|%s", d0.Code, d0.Fn)
				detail = fmt.Sprintf("the program is rejected with (%d) %q @%v; with a placeholder statement '...' (accepted with a warning) in one block no error is delivered and the module is not marked faulty", d0.Code, d0.Msg, d0.Range)
			}
			last.Viol = append(last.Viol, fwproto.Viol{Inv: "C07.I2", Sig: sig, Detail: detail})
		}
		if !f0 {
			if f1, d := failed(last); f1 {
				sig, detail := "warning-fails|failed-without-error", "the program is accepted without errors; with a placeholder statement '...' (accepted with a warning) in one block it is marked faulty without any error"
				if d != nil {
					sig = fmt.Sprintf("warning-fails|%d|%s", d.Code, d.Fn)
					detail = fmt.Sprintf("the program is accepted without errors; with a placeholder statement '...' (accepted with a warning) in one block it fails with (%d) %q @%v %s", d.Code, d.Msg, d.Range, d.File)
				}
				last.Viol = append(last.Viol, fwproto.Viol{Inv: "C07.I2", Sig: sig, Detail: detail})
			}
		}
	}
	return
}

func norm(s, runDir string) string {
	s = strings.ReplaceAll(s, runDir, "$R")
	s = strings.ReplaceAll(s, workDir, "$W")
	if ddppath.InstallDir != "" {
		s = strings.ReplaceAll(s, ddppath.InstallDir, "$D")
	}
	return s
}

var helperFns = map[string]bool{
	"err": true, "errVal": true, "warn": true, "errExpr": true, "errExpected": true, "errorHandler": true,
}

// reporter returns the innermost frame of the compiler that is not an error helper.
func reporter() string {
	pcs := make([]uintptr, 48)
	n := runtime.Callers(3, pcs)
	frames := runtime.CallersFrames(pcs[:n])
	for {
		fr, more := frames.Next()
		fn := fr.Function
		if strings.HasPrefix(fn, "github.com/DDP-Projekt/Kompilierer/") {
			short := strings.TrimPrefix(fn, "github.com/DDP-Projekt/Kompilierer/")
			last := short[strings.LastIndex(short, ".")+1:]
			if !helperFns[last] && !strings.Contains(short, "ddperror.") && !strings.Contains(last, "func") {
				return short
			}
		}
		if !more {
			return "?"
		}
	}
}

// innermost repo frames of a panic stack (function names only, no line numbers)
func stackSig(stack []byte, max int) string {
	var fns []string
	for _, l := range strings.Split(string(stack), "\n") {
		if strings.HasPrefix(l, "github.com/DDP-Projekt/Kompilierer/") {
			fn := strings.TrimPrefix(l, "github.com/DDP-Projekt/Kompilierer/")
			if i := strings.LastIndex(fn, "("); i > 0 {
				fn = fn[:i]
			}
			last := fn[strings.LastIndex(fn, ".")+1:]
			if last == "panic" || strings.Contains(fn, "panic_wrapper") || strings.Contains(fn, "parser_panic_wrapper") {
				continue
			}
			fns = append(fns, fn)
			if len(fns) >= max {
				break
			}
		}
	}
	return strings.Join(fns, "<")
}

func parseCall(job *fwproto.Job, st *fwproto.Step, runDir, root string, modules map[string]*ast.Module) (call fwproto.Call) {
	freshCache := len(modules) == 0
	rootPath := filepath.Join(runDir, root)
	var diags []ddperror.Error
	handler := func(e ddperror.Error) {
		diags = append(diags, e)
		call.Diags = append(call.Diags, fwproto.Diag{
			Code: int(e.Code), Level: int(e.Level), File: norm(e.File, runDir),
			Range: [4]uint{e.Range.Start.Line, e.Range.Start.Column, e.Range.End.Line, e.Range.End.Column},
			Msg:   norm(e.Msg, runDir), Fn: reporter(),
		})
	}
	opts := parser.Options{FileName: rootPath, Modules: modules, ErrorHandler: handler}
	if job.Source {
		if src, err := os.ReadFile(rootPath); err == nil {
			opts.Source = src
		}
	}
	if job.Annot {
		opts.Annotators = []ast.Annotator{&annotators.ConstFuncParamAnnotator{}}
	}
	orderBegin(st.Order)
	start := time.Now()
	var mod *ast.Module
	var err error
	func() {
		defer func() {
			if r := recover(); r != nil {
				stack := debug.Stack()
				msg := fmt.Sprint(r)
				sig := ""
				if pe, ok := r.(*parser.ParserError); ok {
					msg = pe.Msg
					if pe.Err != nil {
						msg += ": " + pe.Err.Error()
					}
					sig = stackSig(pe.StackTrace, 3)
					stack = pe.StackTrace
				} else {
					sig = stackSig(stack, 3)
				}
				msg = norm(msg, runDir)
				if len(msg) > 300 {
					msg = msg[:300]
				}
				call.Viol = append(call.Viol, fwproto.Viol{
					Inv: "C03.panic", Sig: "panic|" + sig + "|" + normMsg(firstLine(msg)),
					Detail: msg + "\n" + norm(trimStack(stack), runDir),
				})
			}
		}()
		mod, err = parser.Parse(opts)
	}()
	call.NS = time.Since(start).Nanoseconds()
	orderEnd(&call)
	if err != nil {
		call.Err = norm(err.Error(), runDir)
	}
	call.NilMod = mod == nil
	if mod != nil && mod.Ast != nil {
		call.Faulty = mod.Ast.Faulty
	}
	for k, m := range modules {
		s := norm(k, runDir)
		if m == nil {
			s += "=nil"
		} else if m.Ast != nil && m.Ast.Faulty {
			s += "=faulty"
		}
		call.Modules = append(call.Modules, s)
	}
	sort.Strings(call.Modules) // sorted after normalisation: independent of the work directory
	// the call returned: evaluate the C07 invariants — only for calls that start from an empty module cache, because
	// the property speaks about one compilation (with a reused cache a module may be faulty through errors that were
	// delivered in an earlier call)
	if len(call.Viol) == 0 && freshCache {
		checkC07(&call, mod, err, diags, modules, runDir)
	}
	return
}

var reNum = regexp.MustCompile(`0x[0-9a-f]+|[0-9]+`)

// normMsg removes input dependent numbers from a panic message (index out of range [5] with length 3)
func normMsg(s string) string {
	if i := strings.Index(s, ": "); i > 0 && strings.HasPrefix(s[i+2:], s[:i]) {
		s = s[:i] // "x: x" (message and wrapped error are the same text)
	}
	s = reNum.ReplaceAllString(s, "N")
	if len(s) > 120 {
		s = s[:120]
	}
	return s
}

func firstLine(s string) string {
	if i := strings.IndexByte(s, '\n'); i >= 0 {
		return s[:i]
	}
	return s
}

func trimStack(b []byte) string {
	lines := strings.Split(string(b), "\n")
	if len(lines) > 60 {
		lines = lines[:60]
	}
	return strings.Join(lines, "\n")
}

func checkC07(call *fwproto.Call, mod *ast.Module, err error, diags []ddperror.Error, modules map[string]*ast.Module, runDir string) {
	nErr := 0
	for _, d := range diags {
		if d.Level == ddperror.LEVEL_ERROR {
			nErr++
		}
	}
	add := func(inv, sig, detail string) {
		call.Viol = append(call.Viol, fwproto.Viol{Inv: inv, Sig: sig, Detail: detail})
	}
	// I1
	if err != nil && mod != nil {
		add("C07.I1", "err-with-module", "Parse returned both an error and a module")
	}
	if err == nil && mod != nil {
		if mod.Ast.Faulty && nErr == 0 {
			add("C07.I1", "faulty-without-error", "module marked faulty but no error-level diagnostic was delivered")
		}
		if !mod.Ast.Faulty && nErr > 0 {
			// identify by the first error's code and reporter
			var first fwproto.Diag
			for _, d := range call.Diags {
				if d.Level == int(ddperror.LEVEL_ERROR) {
					first = d
					break
				}
			}
			add("C07.I1", fmt.Sprintf("error-without-faulty|%d|%s", first.Code, first.Fn),
				fmt.Sprintf("%d error-level diagnostics delivered but module not faulty; first: (%d) %s @%v by %s", nErr, first.Code, first.Msg, first.Range, first.Fn))
		}
	}
	if err == nil && mod == nil {
		add("C07.I1", "nil-nil", "Parse returned neither module nor error")
	}
	// I2 for imported modules: a module that is faulty implies an error was delivered
	if nErr == 0 {
		ks := make([]string, 0, len(modules))
		for k := range modules {
			ks = append(ks, k)
		}
		sort.Strings(ks)
		for _, k := range ks {
			if m := modules[k]; m != nil && m.Ast != nil && m.Ast.Faulty {
				add("C07.I2", "import-faulty-without-error", "imported module "+norm(k, runDir)+" faulty without any error-level diagnostic")
			}
		}
	}
	// I3
	texts := map[string][]string{}
	for i, d := range diags {
		fd := call.Diags[i]
		sig := func(what string) string { return fmt.Sprintf("%s|%d|%s", what, fd.Code, fd.Fn) }
		if d.File == "" {
			add("C07.I3", sig("no-file"), fmt.Sprintf("diagnostic (%d) %q names no file", fd.Code, fd.Msg))
			continue
		}
		lines, ok := texts[d.File]
		if !ok {
			b, rerr := os.ReadFile(d.File)
			if rerr != nil {
				add("C07.I3", sig("file-not-served"), fmt.Sprintf("diagnostic (%d) names %s which the simulated disk does not serve: %v", fd.Code, fd.File, rerr))
				texts[d.File] = nil
				continue
			}
			lines = strings.Split(string(b), "\n")
			texts[d.File] = lines
		}
		if lines == nil {
			continue
		}
		r := d.Range
		if r.End.IsBefore(r.Start) {
			add("C07.I3", sig("start-after-end"), fmt.Sprintf("diagnostic (%d) %q range %v: start after end", fd.Code, fd.Msg, fd.Range))
			continue
		}
		bad := ""
		chk := func(which string, line, col uint) {
			if bad != "" {
				return
			}
			if line < 1 || int(line) > len(lines) {
				bad = fmt.Sprintf("%s line %d outside 1..%d", which, line, len(lines))
				return
			}
			n := utf8.RuneCountInString(lines[line-1])
			if col < 1 || int(col) > n+1 {
				bad = fmt.Sprintf("%s column %d outside 1..%d of line %d", which, col, n+1, line)
			}
		}
		chk("start", r.Start.Line, r.Start.Column)
		chk("end", r.End.Line, r.End.Column)
		if bad != "" {
			add("C07.I3", sig("range-outside-text"), fmt.Sprintf("diagnostic (%d) %q in %s range %v: %s", fd.Code, fd.Msg, fd.File, fd.Range, bad))
			continue
		}
		// the diagnostics wrapped inside (errors of a generic instantiation) are part of what is delivered: they name
		// a file and a range as well, and if nothing but warnings is wrapped the failure is caused by warnings alone
		if len(d.WrappedGenericErrors) > 0 {
			var walk func(ws []ddperror.Error, depth int) (hasErr bool)
			walk = func(ws []ddperror.Error, depth int) bool {
				hasErr := false
				for _, w := range ws {
					if w.Level == ddperror.LEVEL_ERROR {
						hasErr = true
					}
					wl, ok := texts[w.File]
					if !ok {
						if b, rerr := os.ReadFile(w.File); rerr == nil {
							wl = strings.Split(string(b), "\n")
						}
						texts[w.File] = wl
					}
					switch {
					case w.File == "" || wl == nil:
						add("C07.I3", fmt.Sprintf("wrapped-file-not-served|%d|%s", int(w.Code), fd.Fn), fmt.Sprintf("diagnostic (%d) wrapped in (%d) names the file %q which the simulated disk does not serve", int(w.Code), fd.Code, norm(w.File, runDir)))
					case w.Range.End.IsBefore(w.Range.Start):
						add("C07.I3", fmt.Sprintf("wrapped-start-after-end|%d|%s", int(w.Code), fd.Fn), fmt.Sprintf("diagnostic (%d) %q wrapped in (%d): range %v has its start after its end", int(w.Code), w.Msg, fd.Code, w.Range))
					default:
						for _, pos := range []token.Position{w.Range.Start, w.Range.End} {
							if pos.Line < 1 || int(pos.Line) > len(wl) || pos.Column < 1 || int(pos.Column) > utf8.RuneCountInString(wl[pos.Line-1])+1 {
								add("C07.I3", fmt.Sprintf("wrapped-range-outside-text|%d|%s", int(w.Code), fd.Fn), fmt.Sprintf("diagnostic (%d) %q wrapped in (%d) in %s: position %v lies outside the text", int(w.Code), w.Msg, fd.Code, norm(w.File, runDir), pos))
								break
							}
						}
					}
					if depth < 8 && walk(w.WrappedGenericErrors, depth+1) {
						hasErr = true
					}
				}
				return hasErr
			}
			if !walk(d.WrappedGenericErrors, 0) && d.Level == ddperror.LEVEL_ERROR {
				add("C07.I2", fmt.Sprintf("error-from-warnings-only|%d|%s", fd.Code, fd.Fn), fmt.Sprintf("error-level diagnostic (%d) %q wraps nothing but warnings: warnings alone made the compilation fail", fd.Code, firstLine(fd.Msg)))
			}
		}
		// operational form: the real renderer must be able to print it
		func() {
			defer func() {
				if p := recover(); p != nil {
					add("C07.I3", sig("renderer-panic"), fmt.Sprintf("MakeAdvancedHandler panics on diagnostic (%d) range %v: %v", fd.Code, fd.Range, p))
				}
			}()
			var sink bytes.Buffer
			ddperror.MakeAdvancedHandler(d.File, []byte(strings.Join(lines, "\n")), &sink)(d)
		}()
	}
}
