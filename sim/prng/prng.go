// Package prng is the only source of choice in the simulator: SplitMix64 for
// seed derivation and xoshiro256** for streams.  simheap.c implements the same
// two functions bit-identically.
package prng

// SplitMix64 advances *x and returns the next output.
func SplitMix64(x *uint64) uint64 {
	*x += 0x9e3779b97f4a7c15
	z := *x
	z = (z ^ (z >> 30)) * 0xbf58476d1ce4e5b9
	z = (z ^ (z >> 27)) * 0x94d049bb133111eb
	return z ^ (z >> 31)
}

// Derive mixes names (FNV-1a) and integers into seed and returns a new seed.
// Adding a draw to one named stream never shifts another stream.
func Derive(seed uint64, parts ...any) uint64 {
	h := seed ^ 0xcbf29ce484222325
	mixb := func(b byte) { h ^= uint64(b); h *= 0x100000001b3 }
	for _, p := range parts {
		switch v := p.(type) {
		case string:
			for i := 0; i < len(v); i++ {
				mixb(v[i])
			}
			mixb(0xff)
		case int:
			u := uint64(v)
			for i := 0; i < 8; i++ {
				mixb(byte(u >> (8 * i)))
			}
		case uint64:
			for i := 0; i < 8; i++ {
				mixb(byte(v >> (8 * i)))
			}
		default:
			panic("prng.Derive: unsupported part")
		}
	}
	x := h
	return SplitMix64(&x)
}

type R struct{ s [4]uint64 }

func New(seed uint64) *R {
	r := &R{}
	x := seed
	for i := range r.s {
		r.s[i] = SplitMix64(&x)
	}
	return r
}

// Stream returns an independent generator for a named sub-stream.
func Stream(seed uint64, parts ...any) *R { return New(Derive(seed, parts...)) }

func rotl(x uint64, k uint) uint64 { return (x << k) | (x >> (64 - k)) }

func (r *R) Uint64() uint64 {
	s := &r.s
	res := rotl(s[1]*5, 7) * 9
	t := s[1] << 17
	s[2] ^= s[0]
	s[3] ^= s[1]
	s[1] ^= s[2]
	s[0] ^= s[3]
	s[2] ^= t
	s[3] = rotl(s[3], 45)
	return res
}

// Intn returns a value in [0,n); n<=0 returns 0.
func (r *R) Intn(n int) int {
	if n <= 1 {
		return 0
	}
	return int(r.Uint64() % uint64(n))
}

// Range returns a value in [lo,hi].
func (r *R) Range(lo, hi int) int {
	if hi <= lo {
		return lo
	}
	return lo + r.Intn(hi-lo+1)
}

func (r *R) Float() float64 { return float64(r.Uint64()>>11) / (1 << 53) }

func (r *R) Chance(p float64) bool { return r.Float() < p }

func (r *R) Bool() bool { return r.Uint64()&1 == 1 }

// Perm returns a uniformly random permutation of [0,n).
func (r *R) Perm(n int) []int {
	p := make([]int, n)
	for i := range p {
		p[i] = i
	}
	for i := n - 1; i > 0; i-- {
		j := r.Intn(i + 1)
		p[i], p[j] = p[j], p[i]
	}
	return p
}

func Pick[T any](r *R, xs []T) T { return xs[r.Intn(len(xs))] }
