// Package simdisk is the simulated source disk: a file tree whose every byte
// the simulator produced, plus the delivery faults it can apply to it.
package simdisk

import (
	"bytes"
	"fmt"
	"os"
	"path/filepath"
	"sort"
	"strings"
	"unicode/utf8"

	"ddpsim/prng"
)

// Tree is the complete content of one simulated disk (paths relative to the run directory).
type Tree struct {
	Files map[string][]byte `json:"files"`
	Links map[string]string `json:"links,omitempty"` // path -> symlink target (as written)
	Dirs  []string          `json:"dirs,omitempty"`  // extra (possibly empty) directories
}

func (t *Tree) Clone() *Tree {
	n := &Tree{Files: make(map[string][]byte, len(t.Files))}
	for k, v := range t.Files {
		n.Files[k] = v // contents are never mutated in place
	}
	if len(t.Links) > 0 {
		n.Links = make(map[string]string, len(t.Links))
		for k, v := range t.Links {
			n.Links[k] = v
		}
	}
	n.Dirs = append([]string(nil), t.Dirs...)
	return n
}

func (t *Tree) SortedFiles() []string {
	ks := make([]string, 0, len(t.Files))
	for k := range t.Files {
		ks = append(ks, k)
	}
	sort.Strings(ks)
	return ks
}

func (t *Tree) sortedLinks() []string {
	ks := make([]string, 0, len(t.Links))
	for k := range t.Links {
		ks = append(ks, k)
	}
	sort.Strings(ks)
	return ks
}

// Load reads a directory recursively (only regular files; .ddp, .c, .h, .txt — what the frontend can see).
func Load(dir string) (*Tree, error) {
	t := &Tree{Files: map[string][]byte{}}
	err := filepath.WalkDir(dir, func(p string, d os.DirEntry, err error) error {
		if err != nil {
			return err
		}
		if d.IsDir() {
			return nil
		}
		if !d.Type().IsRegular() {
			return nil
		}
		rel, _ := filepath.Rel(dir, p)
		b, err := os.ReadFile(p)
		if err != nil {
			return err
		}
		t.Files[rel] = b
		return nil
	})
	return t, err
}

// Materialise writes the tree below dir (which is created).
func (t *Tree) Materialise(dir string) error {
	if err := os.MkdirAll(dir, 0o755); err != nil {
		return err
	}
	for _, d := range t.Dirs {
		if err := os.MkdirAll(filepath.Join(dir, d), 0o755); err != nil {
			return err
		}
	}
	for _, f := range t.SortedFiles() {
		p := filepath.Join(dir, f)
		if err := os.MkdirAll(filepath.Dir(p), 0o755); err != nil {
			return err
		}
		if err := os.WriteFile(p, t.Files[f], 0o644); err != nil {
			return err
		}
	}
	for _, l := range t.sortedLinks() {
		p := filepath.Join(dir, l)
		if err := os.MkdirAll(filepath.Dir(p), 0o755); err != nil {
			return err
		}
		os.Remove(p)
		if err := os.Symlink(t.Links[l], p); err != nil {
			return err
		}
	}
	return nil
}

// Fault is one delivery fault.  It is a pure function of the tree it is applied to.
type Fault struct {
	Kind string `json:"kind"`
	File string `json:"file"`           // target file (relative)
	Off  int    `json:"off,omitempty"`  // byte offset / block index
	Len  int    `json:"len,omitempty"`  // block length in words / bytes
	Off2 int    `json:"off2,omitempty"` // second block (swap)
	Mask int    `json:"mask,omitempty"` // xor mask (flip)
	Alt  string `json:"alt,omitempty"`  // torn_write: editor step name or corpus file
	Seed uint64 `json:"seed,omitempty"` // torn_write: seed of the editor step
}

func (f Fault) String() string {
	return fmt.Sprintf("%s(%s off=%d len=%d off2=%d mask=%#x alt=%s)", f.Kind, f.File, f.Off, f.Len, f.Off2, f.Mask, f.Alt)
}

// Kinds that damage the content of a file.
var ContentKinds = []string{"short_read", "torn_write", "lost_block", "zero_block", "dup_block", "swap_blocks", "flip", "crlf", "bom", "empty", "splice", "graft", "wrap"}

// WrapHeaders are put in front of a line by the "wrap" fault (an editor typing a control statement header
// in front of an existing statement: the line becomes the single-statement body)
var WrapHeaders = []string{"Wenn wahr, ", "Solange falsch, ", "Für jede Zahl zaehler von 1 bis 2, ", "Wenn falsch, dann:\n\t", "Sonst "}

// TodoLines lists the lines in front of which the placeholder statement "..." can stand without changing what the
// program means: indented lines that begin a statement of a block (the line before ends a statement or opens the
// block) and are not part of an alias list, a field list or a continued expression.
func TodoLines(src []byte) []int {
	sl := bytes.Split(src, []byte("\n"))
	var out []int
	prev, prevInd := "", 0
	for i, l := range sl {
		t := strings.TrimSpace(string(l))
		if t == "" {
			continue
		}
		ind := len(l) - len(bytes.TrimLeft(l, " \t"))
		indented := ind > 0
		opens := false
		for _, suf := range []string{"macht:", "dann:", "mache:", "Sonst:", "Wiederhole:", "Mache:"} {
			if strings.HasSuffix(prev, suf) {
				opens = true
			}
		}
		ends := strings.HasSuffix(prev, ".") && !strings.HasSuffix(prev, "...")
		starts := false
		for _, w := range []string{"Schreibe ", "Speichere ", "Der ", "Die ", "Das ", "Wenn ", "Solange ", "Für ", "Gib ", "Erhöhe ", "Verringere ", "Wiederhole", "Mache"} {
			if strings.HasPrefix(t, w) {
				starts = true
			}
		}
		// the same block as the statement before, or the first statement of a block that was just opened
		if indented && starts && !strings.HasPrefix(t, "Wenn aber") && (opens && ind > prevInd || ends && ind == prevInd) {
			out = append(out, i)
		}
		prev, prevInd = t, ind
	}
	return out
}

// Kinds that replace the file by another filesystem object.
var ObjectKinds = []string{"enoent", "eisdir", "eloop", "dangling", "enotdir"}

// Words splits text into blocks: maximal runs of letters/digits (UTF-8 aware), single other
// non-space bytes, with the following white space attached.  Returns the start offsets, plus len(b).
func Words(b []byte) []int {
	var offs []int
	i := 0
	isWord := func(r rune) bool {
		return r == '_' || r >= 0x80 || (r >= '0' && r <= '9') || (r >= 'a' && r <= 'z') || (r >= 'A' && r <= 'Z')
	}
	for i < len(b) {
		offs = append(offs, i)
		r, sz := utf8.DecodeRune(b[i:])
		i += sz
		if isWord(r) {
			for i < len(b) {
				r, sz = utf8.DecodeRune(b[i:])
				if !isWord(r) {
					break
				}
				i += sz
			}
		}
		for i < len(b) && (b[i] == ' ' || b[i] == '\t' || b[i] == '\n' || b[i] == '\r') {
			i++
		}
	}
	offs = append(offs, len(b))
	return offs
}

func clamp(x, lo, hi int) int {
	if x < lo {
		return lo
	}
	if x > hi {
		return hi
	}
	return x
}

// EditorStep returns src after one simulated editor action (deterministic in seed).
func EditorStep(src []byte, seed uint64) []byte {
	r := prng.New(seed)
	lines := bytes.SplitAfter(src, []byte("\n"))
	if len(lines) == 0 {
		return src
	}
	i := r.Intn(len(lines))
	var out [][]byte
	switch r.Intn(5) {
	case 0: // delete a line
		out = append(append(out, lines[:i]...), lines[i+1:]...)
	case 1: // duplicate a line
		out = append(append(append(out, lines[:i+1]...), lines[i]), lines[i+1:]...)
	case 2: // move a line
		j := r.Intn(len(lines))
		l := lines[i]
		rest := append(append([][]byte{}, lines[:i]...), lines[i+1:]...)
		j = clamp(j, 0, len(rest))
		out = append(append(append(out, rest[:j]...), l), rest[j:]...)
	case 3: // change indentation
		out = append(out, lines[:i]...)
		out = append(out, append([]byte("\t"), lines[i]...))
		out = append(out, lines[i+1:]...)
	default: // type a few characters at the end of a line
		frag := prng.Pick(r, []string{" und", " ist", "(", "\"", "[", ":", " von", " Zahlen Liste", ".", " mit", " der Funktion"})
		l := bytes.TrimRight(lines[i], "\n")
		nl := lines[i][len(l):]
		out = append(out, lines[:i]...)
		out = append(out, append(append(append([]byte{}, l...), frag...), nl...))
		out = append(out, lines[i+1:]...)
	}
	return bytes.Join(out, nil)
}

// ApplyContent applies a content fault to src.  alt is consulted for splice/torn_write with a corpus alt.
func ApplyContent(f Fault, src []byte, alt []byte) []byte {
	n := len(src)
	switch f.Kind {
	case "short_read":
		return append([]byte{}, src[:clamp(f.Off, 0, n)]...)
	case "empty":
		return []byte{}
	case "bom":
		return append([]byte{0xEF, 0xBB, 0xBF}, src...)
	case "crlf":
		return bytes.ReplaceAll(src, []byte("\n"), []byte("\r\n"))
	case "flip":
		if n == 0 {
			return src
		}
		out := append([]byte{}, src...)
		o := clamp(f.Off, 0, n-1)
		m := byte(f.Mask)
		if m == 0 {
			m = 0x20
		}
		out[o] ^= m
		return out
	case "torn_write":
		// first Off bytes of the new version, rest of the old one
		nv := alt
		if nv == nil {
			nv = EditorStep(src, f.Seed)
		}
		k := clamp(f.Off, 0, len(nv))
		out := append([]byte{}, nv[:k]...)
		if k < n {
			out = append(out, src[k:]...)
		}
		return out
	case "graft":
		// some lines of another file (a paste from the clipboard) inserted at a line boundary
		if alt == nil {
			alt = src
		}
		al := bytes.SplitAfter(alt, []byte("\n"))
		sl := bytes.SplitAfter(src, []byte("\n"))
		if len(al) == 0 {
			return src
		}
		a := clamp(f.Off2, 0, len(al)-1)
		b := clamp(a+max(f.Len, 1), a+1, len(al))
		at := clamp(f.Off, 0, len(sl))
		var out []byte
		for _, l := range sl[:at] {
			out = append(out, l...)
		}
		if len(out) > 0 && out[len(out)-1] != '\n' {
			out = append(out, '\n')
		}
		for _, l := range al[a:b] {
			out = append(out, l...)
		}
		if len(out) > 0 && out[len(out)-1] != '\n' {
			out = append(out, '\n')
		}
		for _, l := range sl[at:] {
			out = append(out, l...)
		}
		return out
	case "wrap":
		sl := bytes.SplitAfter(src, []byte("\n"))
		if len(sl) == 0 {
			return src
		}
		at := clamp(f.Off, 0, len(sl)-1)
		h := WrapHeaders[clamp(f.Len, 0, len(WrapHeaders)-1)]
		var out []byte
		for i, l := range sl {
			if i == at {
				ind := len(l) - len(bytes.TrimLeft(l, " \t"))
				out = append(out, l[:ind]...)
				out = append(out, h...)
				out = append(out, l[ind:]...)
			} else {
				out = append(out, l...)
			}
		}
		return out
	case "todo":
		// an editor puts the placeholder statement "..." (accepted with a warning) in front of line Off of a block
		sl := bytes.SplitAfter(src, []byte("\n"))
		cands := TodoLines(src)
		if len(cands) == 0 {
			return src
		}
		at := cands[clamp(f.Off, 0, len(cands)-1)]
		var out []byte
		for i, l := range sl {
			if i == at {
				ind := len(l) - len(bytes.TrimLeft(l, " \t"))
				out = append(out, l[:ind]...)
				out = append(out, "...\n"...)
			}
			out = append(out, l...)
		}
		return out
	case "splice":
		// head of src up to Off, then tail of alt from Off2
		if alt == nil {
			alt = src
		}
		out := append([]byte{}, src[:clamp(f.Off, 0, n)]...)
		return append(out, alt[clamp(f.Off2, 0, len(alt)):]...)
	}
	// block faults work on word blocks
	w := Words(src)
	nb := len(w) - 1
	if nb <= 0 {
		return src
	}
	blk := func(i, l int) (int, int) {
		i = clamp(i, 0, nb-1)
		j := clamp(i+max(l, 1), i+1, nb)
		return w[i], w[j]
	}
	switch f.Kind {
	case "lost_block":
		a, b := blk(f.Off, f.Len)
		return append(append([]byte{}, src[:a]...), src[b:]...)
	case "zero_block":
		a, b := blk(f.Off, f.Len)
		out := append([]byte{}, src...)
		for i := a; i < b; i++ {
			out[i] = 0
		}
		return out
	case "dup_block":
		a, b := blk(f.Off, f.Len)
		out := append([]byte{}, src[:b]...)
		out = append(out, src[a:b]...)
		return append(out, src[b:]...)
	case "swap_blocks":
		i, j := clamp(f.Off, 0, nb-1), clamp(f.Off2, 0, nb-1)
		if i > j {
			i, j = j, i
		}
		a1, b1 := blk(i, f.Len)
		a2, b2 := blk(j, f.Len)
		if a2 < b1 { // overlapping: swap adjacent halves
			a2 = b1
			if b2 <= a2 {
				return src
			}
		}
		out := append([]byte{}, src[:a1]...)
		out = append(out, src[a2:b2]...)
		out = append(out, src[b1:a2]...)
		out = append(out, src[a1:b1]...)
		return append(out, src[b2:]...)
	}
	panic("simdisk: unknown content fault " + f.Kind)
}

// Apply applies f to the tree (a clone is returned).  altSrc may be nil.
func Apply(t *Tree, f Fault, altSrc []byte) *Tree {
	n := t.Clone()
	switch f.Kind {
	case "enoent":
		delete(n.Files, f.File)
	case "eisdir":
		delete(n.Files, f.File)
		delete(n.Links, f.File)
		n.Dirs = append(n.Dirs, f.File)
	case "eloop":
		delete(n.Files, f.File)
		if n.Links == nil {
			n.Links = map[string]string{}
		}
		n.Links[f.File] = filepath.Base(f.File)
	case "dangling":
		delete(n.Files, f.File)
		if n.Links == nil {
			n.Links = map[string]string{}
		}
		n.Links[f.File] = "nirgendwo.ddp"
	case "enotdir":
		// the directory containing File becomes a regular file
		d := filepath.Dir(f.File)
		if d == "." {
			delete(n.Files, f.File)
			break
		}
		for k := range t.Files {
			if strings.HasPrefix(k, d+"/") {
				delete(n.Files, k)
			}
		}
		for k := range t.Links {
			if strings.HasPrefix(k, d+"/") || k == d {
				delete(n.Links, k)
			}
		}
		var nd []string
		for _, k := range n.Dirs {
			if !strings.HasPrefix(k, d+"/") && k != d {
				nd = append(nd, k)
			}
		}
		n.Dirs = nd
		n.Files[d] = []byte("keine Mappe\n")
	default:
		src, ok := t.Files[f.File]
		if !ok {
			return n
		}
		n.Files[f.File] = ApplyContent(f, src, altSrc)
	}
	n.prune()
	return n
}

// prune keeps the tree realisable: an entry below a path that is a regular file or a symlink
// is shadowed and removed; a path is at most one of file / link / directory.
func (t *Tree) Prune() { t.prune() }

func (t *Tree) prune() {
	shadow := func(p string) bool {
		for d := filepath.Dir(p); d != "." && d != "/"; d = filepath.Dir(d) {
			if _, ok := t.Files[d]; ok {
				return true
			}
			if _, ok := t.Links[d]; ok {
				return true
			}
		}
		return false
	}
	for k := range t.Links {
		delete(t.Files, k)
		if shadow(k) {
			delete(t.Links, k)
		}
	}
	for k := range t.Files {
		if shadow(k) {
			delete(t.Files, k)
		}
	}
	var nd []string
	for _, d := range t.Dirs {
		_, isF := t.Files[d]
		_, isL := t.Links[d]
		if !isF && !isL && !shadow(d) {
			nd = append(nd, d)
		}
	}
	t.Dirs = nd
}
