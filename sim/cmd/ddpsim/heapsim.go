package main

import (
	"bytes"
	"context"
	"encoding/json"
	"fmt"
	"os"
	"os/exec"
	"path/filepath"
	"sort"
	"strings"
	"sync"
	"syscall"
	"time"

	"ddpsim/prng"
)

// ---------------------------------------------------------------------------------------------
// heapsim: compiled programs run on the simulated heap (sim/c/simheap.c), linked in by kddp's
// own link step.  Serves C05 (ledger + guard pages) and C11 (configuration swarm).
// ---------------------------------------------------------------------------------------------

type BuildCfg struct {
	O        int  `json:"O"`
	LinkMods bool `json:"link_modules"`
	LinkList bool `json:"link_list_defs"`
}

func (c BuildCfg) String() string {
	return fmt.Sprintf("O%d/mods=%t/list=%t", c.O, c.LinkMods, c.LinkList)
}

type HeapPolicy struct {
	Place         string `json:"place"`
	Fill          string `json:"fill"`
	Move          string `json:"move"`
	Reuse         string `json:"reuse"`
	Align         int    `json:"align"`
	Seed          uint64 `json:"seed"`
	LocaleMissing bool   `json:"locale_missing,omitempty"`
}

func (p HeapPolicy) String() string {
	s := fmt.Sprintf("place=%s;fill=%s;move=%s;reuse=%s;align=%d", p.Place, p.Fill, p.Move, p.Reuse, p.Align)
	return s
}

func drawPolicy(r *prng.R) HeapPolicy {
	p := HeapPolicy{Seed: r.Uint64()}
	p.Place = prng.Pick(r, []string{"guard_end", "guard_end", "guard_end", "guard_start", "packed"})
	p.Fill = prng.Pick(r, []string{"junk", "junk", "a5", "zero"})
	p.Move = prng.Pick(r, []string{"always", "always", "inplace", "coin"})
	p.Reuse = "never"
	if p.Place == "packed" && r.Chance(0.5) {
		p.Reuse = "lifo"
	}
	p.Align = prng.Pick(r, []int{1, 1, 8, 16})
	return p
}

// the strictest policy: every byte past the end traps, freed memory traps, fresh memory is junk
var strictPolicy = HeapPolicy{Place: "guard_end", Fill: "junk", Move: "always", Reuse: "never", Align: 1, Seed: 7}

// the policy used when configurations are compared (C11): malloc-compatible alignment
var comparePolicy = HeapPolicy{Place: "guard_end", Fill: "junk", Move: "always", Reuse: "never", Align: 16, Seed: 7}

type HeapReport struct {
	Term    string `json:"term"`
	Events  int64  `json:"events"`
	Allocs  int64  `json:"allocs"`
	Frees   int64  `json:"frees"`
	Resizes int64  `json:"resizes"`
	Moved   int64  `json:"moved"`
	Inplace int64  `json:"inplace"`
	Reused  int64  `json:"reused"`
	Refused int64  `json:"refused"`
	RefSize uint64 `json:"refused_size"`
	SumNew  int64  `json:"sum_new"`
	SumOld  int64  `json:"sum_old"`
	MaxLive int64  `json:"max_live_bytes"`
	Slots   int64  `json:"slots"`
	NLive   int64  `json:"nlive"`
	Policy  string `json:"policy"`
	Live    []struct {
		Block int    `json:"block"`
		Size  int64  `json:"size"`
		Event int64  `json:"event"`
		PC    uint64 `json:"pc"`
	} `json:"live"`
	Viol []struct {
		Inv  string `json:"inv"`
		PC   uint64 `json:"pc"`
		Addr uint64 `json:"addr"`
		Text string `json:"text"`
	} `json:"viol"`
}

// HProg is one program of a heapsim workload, laid out in files.
type HProg struct {
	Name  string
	Files map[string][]byte // relative path -> content (sources, input files, .c files)
	Root  string
	Stdin []byte
	Args  []string
	Roles []string // generator: (type/role) pairs exercised
	// SelfContained: one module without imports (can be built with --module-linken=false)
	SelfContained bool
}

type ExecResult struct {
	Stdout   []byte
	Stderr   []byte
	Exit     int
	Signal   string
	TimedOut bool
	Report   *HeapReport
	Class    string // none | laufzeitfehler:<msg> | trap | signal:<x> | timeout
}

func wrapFlags(tc *Toolchain) string {
	return "-Wl,--wrap=ddp_reallocate,--wrap=realloc,--wrap=free,--wrap=signal,--wrap=__sysv_signal,--wrap=setlocale,--wrap=ddp_ddpmain,--wrap=ddp_end_runtime -no-pie " + tc.SimHeapO + " -lddpruntime"
}

// compileDDP runs kddp in dir on root and produces exe.  Returns kddp's combined output.
func compileDDP(tc *Toolchain, kddp, dir, root, exe string, cfg BuildCfg, simheap bool, extraEnv []string) (string, int, error) {
	args := []string{"kompiliere", root, "-o", exe, "-O", fmt.Sprint(cfg.O),
		fmt.Sprintf("--module-linken=%t", cfg.LinkMods), fmt.Sprintf("--list-defs-linken=%t", cfg.LinkList)}
	if simheap {
		args = append(args, "--gcc-optionen", wrapFlags(tc))
	}
	// the limit is CPU time (120 s), not wall-clock time: how long a process waits for a core on a loaded machine is not
	// a property of the compiler; the wall-clock limit is only a backstop
	ctx, cancel := context.WithTimeout(context.Background(), 15*time.Minute)
	defer cancel()
	cmd := exec.CommandContext(ctx, "/bin/sh", append([]string{"-c", `ulimit -S -t 120; exec "$0" "$@"`, kddp}, args...)...)
	cmd.Dir = dir
	cmd.Env = append(append(os.Environ(), "DDPPATH="+tc.Dir), extraEnv...)
	out, err := cmd.CombinedOutput()
	code := 0
	if err != nil {
		if ee, ok := err.(*exec.ExitError); ok {
			code = ee.ExitCode()
			err = nil
		}
	}
	return string(out), code, err
}

func runExe(dir, exe string, stdin []byte, args []string, pol *HeapPolicy, reportPath string, timeout time.Duration) *ExecResult {
	// timeout is a limit on CPU time (SIGXCPU), so that the verdict "does not terminate" does not depend on how loaded
	// the machine is; wall-clock time is limited far above it, for programs that stall without computing
	cpu := int(timeout / time.Second)
	if cpu < 1 {
		cpu = 1
	}
	ctx, cancel := context.WithTimeout(context.Background(), 15*timeout+2*time.Minute)
	defer cancel()
	cmd := exec.CommandContext(ctx, "/bin/sh", append([]string{"-c", fmt.Sprintf(`ulimit -S -t %d; exec "$0" "$@"`, cpu), exe}, args...)...)
	cmd.Dir = dir
	env := []string{"PATH=/usr/bin:/bin", "HOME=/nonexistent", "LANG=C", "DDPSIM_TEST_ENV=wert"}
	if pol != nil {
		env = append(env, "SIMHEAP_POLICY="+pol.String(), fmt.Sprintf("SIMHEAP_SEED=%d", pol.Seed), "SIMHEAP_REPORT="+reportPath)
		if pol.LocaleMissing {
			env = append(env, "SIMHEAP_LOCALE_MISSING=1")
		}
	}
	cmd.Env = env
	cmd.Stdin = bytes.NewReader(stdin)
	var so, se bytes.Buffer
	cmd.Stdout = &limitedWriter{w: &so, n: 1 << 20}
	cmd.Stderr = &limitedWriter{w: &se, n: 1 << 18}
	err := cmd.Run()
	res := &ExecResult{Stdout: so.Bytes(), Stderr: se.Bytes()}
	if ctx.Err() != nil {
		res.TimedOut = true
	}
	if err != nil {
		if ee, ok := err.(*exec.ExitError); ok {
			res.Exit = ee.ExitCode()
			if ws, ok := ee.Sys().(syscall.WaitStatus); ok && ws.Signaled() {
				res.Signal = ws.Signal().String()
				if ws.Signal() == syscall.SIGXCPU {
					res.TimedOut = true
					res.Exit = -1
				}
			}
		} else {
			res.Exit = -1
		}
	}
	if pol != nil {
		if b, err := os.ReadFile(reportPath); err == nil {
			var rep HeapReport
			if json.Unmarshal(b, &rep) == nil {
				res.Report = &rep
			}
		}
		os.Remove(reportPath)
	}
	res.Class = classify(res)
	return res
}

type limitedWriter struct {
	w *bytes.Buffer
	n int
}

func (l *limitedWriter) Write(p []byte) (int, error) {
	if l.w.Len() < l.n {
		k := l.n - l.w.Len()
		if k > len(p) {
			k = len(p)
		}
		l.w.Write(p[:k])
	}
	return len(p), nil
}

func classify(r *ExecResult) string {
	switch {
	case r.TimedOut:
		return "timeout"
	case r.Report != nil && (r.Report.Term == "resource_limit" || r.Report.Term == "arena_exhausted"):
		// the simulated heap ran out of mappings / memory: says nothing about the program
		return "resource-limit"
	case r.Report != nil && len(r.Report.Viol) > 0 && r.Report.Viol[0].Inv == "L5":
		return "trap"
	case r.Signal != "":
		return "signal:" + r.Signal
	case r.Exit >= 128:
		return fmt.Sprintf("signal:%d", r.Exit-128)
	}
	if i := bytes.Index(r.Stderr, []byte("Laufzeitfehler: ")); i >= 0 {
		msg := string(r.Stderr[i+len("Laufzeitfehler: "):])
		if j := strings.IndexByte(msg, '\n'); j >= 0 {
			msg = msg[:j]
		}
		return "laufzeitfehler:" + msg
	}
	return "none"
}

func (p *HProg) materialise(dir string) error {
	os.MkdirAll(dir, 0o755)
	ks := make([]string, 0, len(p.Files))
	for k := range p.Files {
		ks = append(ks, k)
	}
	sort.Strings(ks)
	for _, k := range ks {
		f := filepath.Join(dir, k)
		os.MkdirAll(filepath.Dir(f), 0o755)
		if err := os.WriteFile(f, p.Files[k], 0o644); err != nil {
			return err
		}
	}
	return nil
}

// corpusHProgs: the runnable golden programs of the repository (main files of test directories).
func corpusHProgs(tc *Toolchain) []*HProg {
	skipMods := map[string]bool{}
	for _, s := range tc.Skipped {
		switch s {
		case "regex.c":
			skipMods["Regex"] = true
			skipMods["Uri"] = true
			skipMods["duden_parsing"] = true
		case "compression.c":
			skipMods["Komprimierung"] = true
			skipMods["duden_parsing"] = true
		}
	}
	var out []*HProg
	for _, p := range Corpus() {
		if !p.IsMain || p.Group == "duden" || p.Group == "examples" {
			continue
		}
		if skipMods[filepath.Base(p.Base)] {
			continue
		}
		hp := &HProg{Name: p.Name, Root: p.Root, Files: map[string][]byte{}}
		// all plain files of the directory (sources, input files, .c) plus the import closure below it
		ents, _ := os.ReadDir(p.Base)
		for _, e := range ents {
			if e.Type().IsRegular() && e.Name() != "expected.txt" {
				if b, err := os.ReadFile(filepath.Join(p.Base, e.Name())); err == nil {
					hp.Files[e.Name()] = b
				}
			}
		}
		for _, f := range p.Only {
			if b, err := os.ReadFile(filepath.Join(p.Base, f)); err == nil {
				hp.Files[f] = b
			}
		}
		if in, ok := hp.Files["input.txt"]; ok {
			hp.Stdin = in
		}
		out = append(out, hp)
	}
	// self-contained reproducers of defects that were found by the simulation and repaired (sim/corpus_heap)
	reg, _ := filepath.Glob(filepath.Join(simDir, "corpus_heap", "*.ddp"))
	sort.Strings(reg)
	for _, f := range reg {
		if b, err := os.ReadFile(f); err == nil {
			out = append(out, &HProg{Name: "verif-heap/" + filepath.Base(f), Root: filepath.Base(f), Files: map[string][]byte{filepath.Base(f): b}})
		}
	}
	// ... and directories: <dir>/<dir>.ddp plus its other files; a file ARCHIVES ("lib.a src.c ...") names static
	// libraries that are built from the C sources next to it (programs whose external dependencies depend on each other)
	dirs, _ := filepath.Glob(filepath.Join(simDir, "corpus_heap", "*", "ARCHIVES"))
	sort.Strings(dirs)
	for _, a := range dirs {
		d := filepath.Dir(a)
		name := filepath.Base(d)
		hp := &HProg{Name: "verif-heap/" + name, Root: name + ".ddp", Files: map[string][]byte{}}
		ents, _ := os.ReadDir(d)
		for _, e := range ents {
			if e.Type().IsRegular() && e.Name() != "ARCHIVES" {
				if b, err := os.ReadFile(filepath.Join(d, e.Name())); err == nil {
					hp.Files[e.Name()] = b
				}
			}
		}
		spec, _ := os.ReadFile(a)
		tmp := filepath.Join(workRoot, "archives-"+name)
		os.MkdirAll(tmp, 0o755)
		for _, line := range strings.Split(string(spec), "\n") {
			f := strings.Fields(line)
			if len(f) < 2 {
				continue
			}
			var objs []string
			for _, src := range f[1:] {
				o := filepath.Join(tmp, strings.TrimSuffix(src, ".c")+".o")
				if out, err := exec.Command("gcc", "-c", "-O1", "-o", o, filepath.Join(d, src)).CombinedOutput(); err != nil {
					infra("corpus_heap/%s: %s does not compile: %s", name, src, out)
				}
				objs = append(objs, o)
				delete(hp.Files, src)
			}
			lib := filepath.Join(tmp, f[0])
			os.Remove(lib)
			if out, err := exec.Command("ar", append([]string{"rcsD", lib}, objs...)...).CombinedOutput(); err != nil {
				infra("corpus_heap/%s: ar %s: %s", name, f[0], out)
			}
			if b, err := os.ReadFile(lib); err == nil {
				hp.Files[f[0]] = b
			}
		}
		os.RemoveAll(tmp)
		out = append(out, hp)
	}
	return out
}

// symbolAt resolves a program counter to the name of the function containing it (nm -n).
type symtab struct {
	addrs []uint64
	names []string
}

func loadSymtab(exe string) *symtab {
	out, err := exec.Command("nm", "-n", "--defined-only", exe).Output()
	if err != nil {
		return &symtab{}
	}
	st := &symtab{}
	for _, l := range strings.Split(string(out), "\n") {
		f := strings.Fields(l)
		if len(f) != 3 || !(f[1] == "T" || f[1] == "t" || f[1] == "W" || f[1] == "w") {
			continue
		}
		var a uint64
		fmt.Sscanf(f[0], "%x", &a)
		st.addrs = append(st.addrs, a)
		st.names = append(st.names, f[2])
	}
	return st
}

func (s *symtab) at(pc uint64) string {
	if pc == 0 || len(s.addrs) == 0 {
		return "?"
	}
	i := sort.Search(len(s.addrs), func(i int) bool { return s.addrs[i] > pc }) - 1
	if i < 0 {
		return "?"
	}
	return s.names[i]
}

// one unit of heapsim work: build one program under one configuration, run it under policies
type heapJob struct {
	Prog     *HProg
	Cfg      BuildCfg
	Policies []HeapPolicy
}

type heapRun struct {
	Policy HeapPolicy
	Res    *ExecResult
	PCSym  string // symbol containing the violating pc
	// allocation-site symbols of blocks still live at exit (pc -> symbol)
	LiveSyms map[uint64]string
}

type heapOutcome struct {
	Job      *heapJob
	BuildOut string
	BuildRC  int
	BuildErr string
	Runs     []heapRun
}

func runHeapJobs(tc *Toolchain, jobs []*heapJob, kddp string) []*heapOutcome {
	outs := make([]*heapOutcome, len(jobs))
	var wg sync.WaitGroup
	sem := make(chan struct{}, nWorkers)
	for i := range jobs {
		wg.Add(1)
		go func(i int) {
			defer wg.Done()
			sem <- struct{}{}
			defer func() { <-sem }()
			outs[i] = runHeapJob(tc, jobs[i], kddp, filepath.Join(workRoot, fmt.Sprintf("h%d", i)))
		}(i)
	}
	wg.Wait()
	return outs
}

func runHeapJob(tc *Toolchain, j *heapJob, kddp, dir string) *heapOutcome {
	o := &heapOutcome{Job: j}
	defer os.RemoveAll(dir)
	if err := j.Prog.materialise(dir); err != nil {
		o.BuildErr = err.Error()
		return o
	}
	exe := filepath.Join(dir, "prog")
	out, rc, err := compileDDP(tc, kddp, dir, j.Prog.Root, exe, j.Cfg, true, nil)
	o.BuildOut, o.BuildRC = out, rc
	if err != nil {
		o.BuildErr = err.Error()
		return o
	}
	if rc != 0 {
		return o
	}
	var st *symtab
	for k, pol := range j.Policies {
		res := runExe(dir, exe, j.Prog.Stdin, j.Prog.Args, &pol, filepath.Join(dir, fmt.Sprintf("report%d.json", k)), 20*time.Second)
		hr := heapRun{Policy: pol, Res: res}
		if res.Report != nil && len(res.Report.Viol) > 0 {
			if st == nil {
				st = loadSymtab(exe)
			}
			hr.PCSym = st.at(res.Report.Viol[0].PC)
		}
		if res.Report != nil && len(res.Report.Live) > 0 {
			if st == nil {
				st = loadSymtab(exe)
			}
			hr.LiveSyms = map[uint64]string{}
			for _, l := range res.Report.Live {
				hr.LiveSyms[l.PC] = st.at(l.PC)
			}
		}
		o.Runs = append(o.Runs, hr)
	}
	return o
}
