package main

import (
	"crypto/sha256"
	"encoding/hex"
	"encoding/json"
	"fmt"
	"os"
	"path/filepath"
	"sort"
	"strings"
	"time"

	"ddpsim/fwproto"
	"ddpsim/prng"
	"ddpsim/simdisk"
)

// ---------------------------------------------------------------------------------------------
// ordersim: every map iteration order of the compiler is chosen by the run's PRNG (seam generated
// by sim/rewriter, applied with go build -overlay).  Serves C16 (repeatability) and the
// order-dependent parts of C10 and C20.
// ---------------------------------------------------------------------------------------------

type orderFamilyPlan struct {
	family string
	n      int
}

func orderSpecs(r *prng.R, thorough bool) []*fwproto.OrderSpec {
	plan := []orderFamilyPlan{{"reverse", 1}, {"rotate", 6}, {"transpose", 6}, {"random", 8}, {"mixed", 3}}
	if thorough {
		plan = []orderFamilyPlan{{"reverse", 1}, {"rotate", 24}, {"transpose", 24}, {"random", 48}, {"mixed", 23}}
	}
	var out []*fwproto.OrderSpec
	for _, p := range plan {
		for i := 0; i < p.n; i++ {
			out = append(out, &fwproto.OrderSpec{Family: p.family, Seed: r.Uint64()})
		}
	}
	return out
}

type ordMeta struct {
	Class string
	Name  string
	Spec  []*fwproto.OrderSpec // per step (nil = identity)
	MS    *ModSet
}

// observation of one call that must be order independent (R1 verdict, R2 diagnostics in order)
func callObservation(c *fwproto.Call) string {
	var b strings.Builder
	fmt.Fprintf(&b, "err=%q nil=%t faulty=%t\n", c.Err, c.NilMod, c.Faulty)
	for _, d := range c.Diags {
		fmt.Fprintf(&b, "%d|%d|%s|%v|%s\n", d.Code, d.Level, d.File, d.Range, d.Msg)
	}
	if c.Extra != "" {
		fmt.Fprintf(&b, "extra=%s\n", c.Extra)
	}
	return b.String()
}

func firstDiff(a, b *fwproto.Call) (string, string) {
	if a.Err != b.Err || a.NilMod != b.NilMod || a.Faulty != b.Faulty {
		return "R1", fmt.Sprintf("verdict differs: reference err=%q nil=%t faulty=%t, now err=%q nil=%t faulty=%t", a.Err, a.NilMod, a.Faulty, b.Err, b.NilMod, b.Faulty)
	}
	for i := 0; i < len(a.Diags) || i < len(b.Diags); i++ {
		switch {
		case i >= len(a.Diags):
			d := b.Diags[i]
			return fmt.Sprintf("R2|extra|%d|%s", d.Code, d.Fn), fmt.Sprintf("diagnostic #%d only under the permuted order: (%d) %s @%v %s", i, d.Code, d.Msg, d.Range, d.File)
		case i >= len(b.Diags):
			d := a.Diags[i]
			return fmt.Sprintf("R2|missing|%d|%s", d.Code, d.Fn), fmt.Sprintf("diagnostic #%d missing under the permuted order: (%d) %s @%v %s", i, d.Code, d.Msg, d.Range, d.File)
		}
		x, y := a.Diags[i], b.Diags[i]
		if x.Code != y.Code || x.Level != y.Level || x.File != y.File || x.Range != y.Range || x.Msg != y.Msg {
			return fmt.Sprintf("R2|differs|%d|%s", x.Code, x.Fn), fmt.Sprintf("diagnostic #%d differs:\n  reference: (%d) %s @%v %s\n  permuted:  (%d) %s @%v %s", i, x.Code, x.Msg, x.Range, x.File, y.Code, y.Msg, y.Range, y.File)
		}
	}
	if a.Extra != b.Extra {
		return "R3|extra", fmt.Sprintf("observation differs: reference %q, permuted %q", a.Extra, b.Extra)
	}
	return "", ""
}

func planC16A(tier string, corpus []Prog) ([]fwproto.Job, []ordMeta) {
	thorough := tier == "thorough"
	var jobs []fwproto.Job
	var meta []ordMeta
	add := func(j fwproto.Job, m ordMeta, specs []*fwproto.OrderSpec) {
		// step 0: identity reference; then every order on a fresh module cache; one order twice in a row
		// (same sources again in the same process, caches warm); finally identity again
		j.Steps = []fwproto.Step{{Fresh: true}}
		m.Spec = []*fwproto.OrderSpec{nil}
		for _, s := range specs {
			j.Steps = append(j.Steps, fwproto.Step{Fresh: true, Order: s})
			m.Spec = append(m.Spec, s)
		}
		j.Steps = append(j.Steps, fwproto.Step{Fresh: true})
		m.Spec = append(m.Spec, nil)
		j.ID = len(jobs)
		jobs = append(jobs, j)
		meta = append(meta, m)
	}
	for i := range corpus {
		p := &corpus[i]
		r := prng.Stream(seed, "ordersim", "corpus", p.Name)
		j := baseJob(p)
		j.Source = true
		j.Annot = r.Bool()
		add(j, ordMeta{Class: "corpus", Name: p.Name}, orderSpecs(r, thorough))
		// invalid variants: delivery faults produce error sequences whose order matters
		nv := 2
		if thorough {
			nv = 8
		}
		for v := 0; v < nv; v++ {
			j := baseJob(p)
			f, alt := seededContentFault(r, p.Root, p.Src, corpus)
			if f.Kind == "crlf" || f.Kind == "bom" {
				f = simdisk.Fault{Kind: "lost_block", File: p.Root, Off: r.Intn(50), Len: 1}
			}
			j.Faults = []simdisk.Fault{f}
			j.Alt = alt
			j.Source = true
			add(j, ordMeta{Class: "corpus-faulted", Name: p.Name}, orderSpecs(r, false))
		}
	}
	nGen := 150
	if thorough {
		nGen = 3000
	}
	for n := 0; n < nGen; n++ {
		r := prng.Stream(seed, "ordersim", "genmod", n)
		ms := genModuleSet(r, genModOpts{Clashes: n%2 == 1, Aliases: true})
		if n%4 == 3 {
			clashVariant(ms, r)
		}
		j := fwproto.Job{Tree: ms.Tree, Root: ms.Root, Source: true, Annot: r.Bool()}
		add(j, ordMeta{Class: "genmod", Name: fmt.Sprintf("genmod#%d", n), MS: ms}, orderSpecs(r, thorough))
	}
	return jobs, meta
}

// clashVariant makes the root declare, before its imports, several names that a module it imports as a whole exports:
// one import then has several clashes to report, and which is reported (first) must not depend on any iteration order.
func clashVariant(ms *ModSet, r *prng.R) {
	var names []string
	for _, imp := range ms.Mods[0].Imports {
		if imp.Target > 0 && len(imp.Names) == 0 {
			vars, _ := publicNamesOf(ms.Mods[imp.Target])
			if len(vars) >= 2 {
				names = vars
				if r.Bool() {
					break
				}
			}
		}
	}
	if len(names) < 2 {
		return
	}
	src := string(ms.Tree.Files[ms.Root])
	head, rest, ok := strings.Cut(src, "\n")
	if !ok {
		return
	}
	var b strings.Builder
	b.WriteString(head + "\n")
	for _, k := range r.Perm(len(names)) {
		fmt.Fprintf(&b, "Die Zahl %s ist 0.\n", names[k])
	}
	b.WriteString(rest)
	ms.Tree.Files[ms.Root] = []byte(b.String())
	ms.Valid = false
}

type ordReplay struct {
	Property string             `json:"property"`
	Engine   string             `json:"engine"`
	Seed     uint64             `json:"seed"`
	Inv      string             `json:"inv"`
	Sig      string             `json:"sig"`
	Detail   string             `json:"detail"`
	Job      fwproto.Job        `json:"job"`   // steps: [identity, failing order]
	Order    *fwproto.OrderSpec `json:"order"` // the (minimised) schedule
	Note     string             `json:"note,omitempty"`
}

// ordHas re-runs job (step 0 identity, step 1 order) and reports whether the same difference shows.
func ordHas(pool *Pool, job *fwproto.Job, inv, sig string) (bool, *fwproto.Result) {
	r := pool.RunIsolated(job, 0)
	if len(r.Calls) < 2 {
		return false, &r
	}
	s, _ := firstDiff(&r.Calls[0], &r.Calls[len(r.Calls)-1])
	return s != "" && "C16."+strings.SplitN(s, "|", 2)[0] == inv && s == sig, &r
}

func minimiseOrder(pool *Pool, job *fwproto.Job, step int, inv, sig string) *ordReplay {
	rp := &ordReplay{Property: "C16", Engine: "ordersim", Seed: seed, Inv: inv, Sig: sig}
	ex, err := explicitJob(job)
	if err != nil {
		ex = job
	}
	j := *ex
	j.Steps = []fwproto.Step{{Fresh: true}, job.Steps[step]}
	ok, r := ordHas(pool, &j, inv, sig)
	if !ok {
		rp.Job = j
		rp.Order = job.Steps[step].Order
		rp.Note = "two-step replay (identity, order) did not reproduce in a fresh process; the schedule may depend on process history"
		j.Steps = job.Steps[:step+1]
		rp.Job = j
		return rp
	}
	// turn the schedule into an explicit one: site#visit -> permutation
	exp := map[string][]int{}
	for _, v := range r.Calls[1].Visits {
		if v.Perm != nil {
			exp[fmt.Sprintf("%s#%d", v.Site, v.Idx)] = v.Perm
		}
	}
	mk := func(e map[string][]int) fwproto.Job {
		c := j
		c.Steps = []fwproto.Step{{Fresh: true}, {Fresh: true, Order: &fwproto.OrderSpec{Family: "explicit", Explicit: e}}}
		return c
	}
	cj := mk(exp)
	if ok, _ := ordHas(pool, &cj, inv, sig); !ok {
		rp.Job = j
		rp.Order = job.Steps[step].Order
		rp.Note = "explicit form of the schedule did not reproduce; seeded schedule reported"
		return rp
	}
	deadline := time.Now().Add(90 * time.Second)
	keys := make([]string, 0, len(exp))
	for k := range exp {
		keys = append(keys, k)
	}
	sort.Strings(keys)
	// reset visits to identity one at a time
	for _, k := range keys {
		if time.Now().After(deadline) {
			break
		}
		trial := map[string][]int{}
		for kk, v := range exp {
			if kk != k {
				trial[kk] = v
			}
		}
		c := mk(trial)
		if ok, _ := ordHas(pool, &c, inv, sig); ok {
			exp = trial
		}
	}
	// reduce every surviving permutation to a single transposition where possible
	for _, k := range keys {
		p, ok := exp[k]
		if !ok || time.Now().After(deadline) {
			continue
		}
		n := len(p)
		done := false
		for a := 0; a < n-1 && !done; a++ {
			for b := a + 1; b < n && !done; b++ {
				t := make([]int, n)
				for i := range t {
					t[i] = i
				}
				t[a], t[b] = t[b], t[a]
				trial := map[string][]int{}
				for kk, v := range exp {
					trial[kk] = v
				}
				trial[k] = t
				c := mk(trial)
				if ok, _ := ordHas(pool, &c, inv, sig); ok {
					exp = trial
					done = true
				}
			}
		}
	}
	fin := mk(exp)
	// shrink the sources: drop files, then lines of the root file, while the same difference shows under the same schedule.
	// (site#visit keys stay meaningful only if the visit structure survives, which the predicate checks by itself)
	if fin.Tree != nil {
		for _, f := range fin.Tree.SortedFiles() {
			if f == fin.Root || time.Now().After(deadline) {
				continue
			}
			c := fin
			c.Tree = fin.Tree.Clone()
			delete(c.Tree.Files, f)
			if ok, _ := ordHas(pool, &c, inv, sig); ok {
				fin = c
			}
		}
		chunks := splitLinesKeep(fin.Tree.Files[fin.Root])
		n := 2
		for len(chunks) >= 2 && time.Now().Before(deadline) {
			sz := (len(chunks) + n - 1) / n
			reduced := false
			for s := 0; s < len(chunks); s += sz {
				e := min(s+sz, len(chunks))
				cand := append(append([][]byte{}, chunks[:s]...), chunks[e:]...)
				c := fin
				c.Tree = fin.Tree.Clone()
				c.Tree.Files[fin.Root] = joinBytes(cand)
				if ok, _ := ordHas(pool, &c, inv, sig); ok {
					fin, chunks, n, reduced = c, cand, max(n-1, 2), true
					break
				}
			}
			if !reduced {
				if n >= len(chunks) {
					break
				}
				n = min(n*2, len(chunks))
			}
		}
	}
	rp.Job = fin
	rp.Order = fin.Steps[1].Order
	return rp
}

func checkC16(tier string) int {
	bin, err := buildFrontw(true)
	if err != nil {
		infra("%v", err)
	}
	corpus := Corpus()
	jobs, meta := planC16A(tier, corpus)
	ncalls := 0
	for _, j := range jobs {
		ncalls += len(j.Steps)
	}
	logf("ordersim C16/%s seed=%d: level A %d source sets, %d Parse calls, %d instrumented sites", tier, seed, len(jobs), ncalls, len(ovSites))
	pool := &Pool{Bin: bin, Env: []string{"DDPPATH=" + filepath.Join(repoRoot(), "lib/stdlib")}, Workers: nWorkers, WorkRoot: workRoot, Stage1: 120 * time.Second, ASLimit: 8192}
	t0 := time.Now()
	results, err := pool.Run(jobs, nil)
	if err != nil {
		infra("%v", err)
	}
	wallA := time.Since(t0)

	groups := map[string]*violGroup{}
	type where struct{ job, step int }
	firstAt := map[string]where{}
	siteMaxN := map[string]int{}
	sitePerms := map[string]map[string]bool{}
	signatures := map[string]bool{}
	unident := map[string]bool{}
	evHash := sha256.New()
	crashed := 0
	var samples []any
	calls := 0
	for i := range results {
		r := &results[i]
		if r.Infra != "" {
			infra("run %d: %s", i, r.Infra)
		}
		if r.Died != "" || len(r.Calls) == 0 {
			// a crash is C03's business; it makes this source set unusable for comparison
			crashed++
			continue
		}
		ref := &r.Calls[0]
		if len(ref.Viol) > 0 && strings.HasPrefix(ref.Viol[0].Inv, "C03") {
			crashed++
			continue
		}
		for s := range r.Calls {
			c := &r.Calls[s]
			calls++
			for _, u := range c.Unident {
				unident[u] = true
			}
			sigH := sha256.New()
			for _, v := range c.Visits {
				if v.N > siteMaxN[v.Site] {
					siteMaxN[v.Site] = v.N
				}
				if v.Perm != nil {
					if sitePerms[v.Site] == nil {
						sitePerms[v.Site] = map[string]bool{}
					}
					if len(sitePerms[v.Site]) < 5000 {
						sitePerms[v.Site][fmt.Sprint(v.Perm)] = true
					}
				}
				fmt.Fprintf(sigH, "%s|%d|%v;", v.Site, v.N, v.Perm)
			}
			signatures[hex.EncodeToString(sigH.Sum(nil)[:8])] = true
			fmt.Fprintf(evHash, "%d/%d %x\n", i, s, sha256.Sum256([]byte(callObservation(c))))
			if s == 0 {
				continue
			}
			if len(c.Viol) > 0 && strings.HasPrefix(c.Viol[0].Inv, "C03") {
				continue
			}
			sig, detail := firstDiff(ref, c)
			if sig == "" {
				continue
			}
			inv := "C16." + strings.SplitN(sig, "|", 2)[0]
			fam := "identity (history)"
			if meta[i].Spec[s] != nil {
				fam = meta[i].Spec[s].Family
			}
			key := inv + "\x00" + sig
			g := groups[key]
			if g == nil {
				g = &violGroup{Inv: inv, Sig: sig, Detail: fmt.Sprintf("%s\n  source set %s (%s), order family %s", detail, meta[i].Name, meta[i].Class, fam)}
				groups[key] = g
				firstAt[key] = where{i, s}
			}
			g.Runs = append(g.Runs, i)
		}
		if len(samples) < 5 && i%(len(results)/5+1) == 2 && len(r.Calls) > 1 {
			c := r.Calls[1]
			var vs []string
			for k, v := range c.Visits {
				if k < 6 {
					vs = append(vs, fmt.Sprintf("%s n=%d perm=%v", v.Site, v.N, v.Perm))
				}
			}
			samples = append(samples, map[string]any{"source_set": meta[i].Name, "class": meta[i].Class, "family": meta[i].Spec[1].Family, "order_seed": meta[i].Spec[1].Seed,
				"visits_n_ge_2": len(c.Visits), "first_visits": vs, "diagnostics": len(c.Diags), "faulty": c.Faulty})
		}
	}
	if len(unident) > 0 {
		var us []string
		for u := range unident {
			us = append(us, u)
		}
		sort.Strings(us)
		infra("map keys without a stable identity (runs would not be replayable): %v", us)
	}

	// level B: whole compiler in fresh processes
	bRuns, bViol := 0, 0
	var wallB time.Duration
	groupsB, bInfo := levelB(tier)
	bRuns, wallB = bInfo.runs, bInfo.wall
	for k, g := range groupsB {
		groups[k] = g
	}

	known := loadKnown()
	keys := make([]string, 0, len(groups))
	for k := range groups {
		keys = append(keys, k)
	}
	sort.Strings(keys)
	newViol := 0
	knownHit := map[string]int{}
	os.MkdirAll(filepath.Join(verifDir, "replays"), 0o755)
	for _, k := range keys {
		g := groups[k]
		if kf := known.match("C16", g.Inv, g.Sig); kf != nil {
			knownHit[kf.Inv+"|"+kf.Sig] += len(g.Runs)
			continue
		}
		newViol++
		var path string
		if w, ok := firstAt[k]; ok {
			rp := minimiseOrder(pool, &jobs[w.job], w.step, g.Inv, g.Sig)
			rp.Detail = g.Detail
			path = filepath.Join(verifDir, "replays", fmt.Sprintf("C16-%s-seed%d-%s.json", sanitize(g.Inv), seed, shortHash(g.Sig)))
			b, _ := json.MarshalIndent(rp, "", " ")
			os.WriteFile(path, b, 0o644)
		} else {
			path = bInfo.replays[k]
			bViol++
		}
		fmt.Printf("VIOLATION property=C16 replay=%s\n  %s signature %q in %d source sets\n  %s\n", path, g.Inv, g.Sig, len(g.Runs), firstLines(g.Detail, 8))
	}
	for _, kf := range known.Findings {
		if kf.Property != "C16" || kf.Replay == "" {
			continue
		}
		if replayOrderStored(pool, filepath.Join(verifDir, kf.Replay)) {
			fmt.Printf("KNOWN-FINDING: property=C16 %s (reproducer %s still fails)\n", kf.What, kf.Replay)
		}
	}
	// reach: which instrumented sites were visited with n >= 2
	var unreached []string
	reached := 0
	for _, s := range ovSites {
		if siteMaxN[s.Site] >= 2 || bInfo.siteMaxN[s.Site] >= 2 {
			reached++
		} else {
			unreached = append(unreached, s.Site+" ("+s.Func+")")
		}
	}
	permsPerSite := map[string]int{}
	for s, m := range sitePerms {
		permsPerSite[s] = len(m)
	}
	ev := &Evidence{PropertyID: "C16", Tier: tier, Seed: int64(seed), Level: "exploration", Violations: newViol}
	ev.Coverage = map[string]any{
		"evaluations":         calls + bRuns,
		"distinct_nontrivial": len(signatures),
		"rule": "level A: one evaluation = one parser.Parse call of the overlay-instrumented frontend under one map-iteration schedule (families identity/reverse/rotate/transpose/random/mixed, drawn from VERIF_SEED) compared with the identity schedule of the same sources; " +
			"level B: one evaluation = one `kddp-ord kompiliere` process (+ execution of its output) under VERIF_ORDER. distinct_nontrivial = distinct order signatures (hash of the sequence of (site, n, permutation) over visits with n >= 2)",
		"samples":                         samples,
		"source_sets":                     len(jobs),
		"source_sets_skipped_crash":       crashed,
		"level_a_calls":                   calls,
		"level_b_process_runs":            bRuns,
		"instrumented_sites":              len(ovSites),
		"sites_reached_with_n_ge_2":       reached,
		"sites_never_reached_with_n_ge_2": unreached,
		"distinct_permutations_per_site":  permsPerSite,
		"runs_per_hour":                   perHour(calls, wallA) + perHour(bRuns, wallB),
		"seeds_per_hour":                  perHour(1, time.Since(startT)),
		"simulated_time_s":                0,
		"simulated_time_note":             "the compiler reads no clock; the schedule dimension is the order of map iterations",
		"event_log_sha256":                hex.EncodeToString(evHash.Sum(nil)),
		"violation_groups":                len(groups),
		"components_real":                 []string{"scanner, parser, resolver, typechecker, annotators (level A)", "whole kddp incl. LLVM and linker, produced executables (level B)"},
		"components_simulated":            []string{"Go map iteration order (verifsim.Order via go build -overlay; every range over a map, maps.Keys/Values)"},
		"exhaustive":                      false,
	}
	ev.Assumptions = []string{
		"every permutation of a map iteration is a legal execution (Go spec), so any divergence is a real order dependence",
		"keys are put in canonical order by a stable identity (name, range, file); a key type without one aborts the check with exit 2",
		"emitted IR/object bytes are not compared: the property speaks of verdict, diagnostics and behaviour",
	}
	writeEvidence(ev)
	logf("ordersim C16 done: %d level-A calls, %d level-B runs, %d signatures, %d/%d sites reached, %d violation groups (%d new)", calls, bRuns, len(signatures), reached, len(ovSites), len(groups), newViol)
	if newViol > 0 {
		return 1
	}
	return 0
}

func replayOrderStored(pool *Pool, path string) bool {
	b, err := os.ReadFile(path)
	if err != nil {
		infra("cannot read %s: %v", path, err)
	}
	var rp ordReplay
	if err := json.Unmarshal(b, &rp); err != nil {
		infra("replay file %s does not parse: %v", path, err)
	}
	ok, _ := ordHas(pool, &rp.Job, rp.Inv, rp.Sig)
	return ok
}
