#!/bin/bash
# runs the repository's own pinned unit tests (the 38 offline ones) on /repo's working tree; prints pass/fail counts
GO=/root/go/pkg/mod/golang.org/toolchain@v0.0.1-go1.24.0.linux-amd64/bin/go
cd "${VERIF_REPO:-/repo}" || exit 2
export GOTOOLCHAIN=local GOSUMDB=off GOFLAGS=-mod=mod GOPROXY=off GOWORK=off
out=$($GO test -vet=off -count=1 ./src/ast/... ./src/ddptypes/... ./src/parser/... ./src/scanner/... ./src/ddperror/... ./src/token/... 2>&1)
echo "$out" | grep -v "no test files" | tail -15
echo "$out" | grep -q "^FAIL\|^---\ FAIL\|panic:" && exit 1
exit 0
