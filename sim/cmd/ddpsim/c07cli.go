package main

import (
	"fmt"
	"os"
	"path/filepath"
	"regexp"
	"sync"

	"ddpsim/fwproto"
)

// I4 of C07: the stock kddp CLI on the same faulted trees — exit status, printed diagnostics and
// produced files must agree.

var reErrHeader = regexp.MustCompile(`(?m)Fehler \(\d{4}\) in `)
var reWarnHeader = regexp.MustCompile(`(?m)Warnung \(\d{4}\) in `)

type cliViol struct {
	sig, detail string
	job         int
}

func c07CLI(jobs []fwproto.Job, results []fwproto.Result, want int) ([]cliViol, int, map[string]int) {
	tc := buildToolchain()
	// choose runs: those that returned, spread evenly; prefer runs with diagnostics (two thirds)
	var withDiag, without []int
	for i := range results {
		r := &results[i]
		if r.Died != "" || len(r.Calls) != 1 || len(jobs[i].Steps) > 1 {
			continue
		}
		if len(r.Calls[0].Diags) > 0 || r.Calls[0].Err != "" {
			withDiag = append(withDiag, i)
		} else {
			without = append(without, i)
		}
	}
	pick := func(xs []int, n int) []int {
		if n >= len(xs) {
			return xs
		}
		out := make([]int, 0, n)
		for k := 0; k < n; k++ {
			out = append(out, xs[k*len(xs)/n])
		}
		return out
	}
	chosen := append(pick(withDiag, want*2/3), pick(without, want/3)...)
	var viols []cliViol
	stats := map[string]int{}
	var mu sync.Mutex
	var wg sync.WaitGroup
	sem := make(chan struct{}, nWorkers)
	for _, i := range chosen {
		wg.Add(1)
		go func(i int) {
			defer wg.Done()
			sem <- struct{}{}
			defer func() { <-sem }()
			ex, err := explicitJob(&jobs[i])
			if err != nil {
				return
			}
			dir := filepath.Join(workRoot, fmt.Sprintf("cli%d", i))
			defer os.RemoveAll(dir)
			if err := ex.Tree.Materialise(dir); err != nil {
				return
			}
			exe := filepath.Join(dir, "prog")
			out, rc, err := compileDDP(tc, tc.Kddp, dir, ex.Root, exe, BuildCfg{O: 1, LinkMods: true, LinkList: true}, false, nil)
			if err != nil {
				return
			}
			_, statErr := os.Stat(exe)
			built := statErr == nil
			hasErr := reErrHeader.MatchString(out)
			hasWarn := reWarnHeader.MatchString(out)
			add := func(sig, detail string) {
				mu.Lock()
				viols = append(viols, cliViol{sig, detail + "\n  kddp output:\n  " + firstLines(out, 12), i})
				mu.Unlock()
			}
			mu.Lock()
			switch {
			case rc == 0:
				stats["exit0"]++
			default:
				stats["exit-nonzero"]++
			}
			if hasWarn && !hasErr {
				stats["warnings-only"]++
			}
			mu.Unlock()
			switch {
			case hasErr && rc == 0:
				add("cli|error-printed-exit-0", fmt.Sprintf("kddp printed an error-level diagnostic but exited with status 0 (executable exists=%t)", built))
			case rc != 0 && built:
				add("cli|failed-but-executable", fmt.Sprintf("kddp exited with status %d but left an executable behind", rc))
			case rc == 0 && !built:
				add("cli|exit-0-no-executable", "kddp exited with status 0 but produced no executable")
			case rc != 0 && len(out) == 0:
				add("cli|silent-failure", fmt.Sprintf("kddp exited with status %d without printing anything", rc))
			case hasWarn && !hasErr && rc != 0 && !reOtherFailure.MatchString(out):
				add("cli|warnings-fail", fmt.Sprintf("only warnings were printed but kddp exited with status %d", rc))
			}
		}(i)
	}
	wg.Wait()
	return viols, len(chosen), stats
}

var reOtherFailure = regexp.MustCompile(`Fehler beim|Unerwarteter Fehler|Fehlerhafter Quellcode`)
