package main

import (
	"crypto/sha256"
	"encoding/hex"
	"encoding/json"
	"fmt"
	"os"
	"path/filepath"
	"sort"
	"strings"
	"sync"
	"time"

	"ddpsim/fwproto"
	"ddpsim/prng"
	"ddpsim/simdisk"
)

// C10: modules expose exactly their public names and initialise once, in order.
// Simulated: the module tree on the simulated disk (arrangement, path spellings, directory
// imports, cycles) and map iteration order.  Oracle: a small executable model of module semantics
// emitted with every generated set + the recorded marker history (the program's stdout).

type c10Replay struct {
	Property string            `json:"property"`
	Engine   string            `json:"engine"`
	Seed     uint64            `json:"seed"`
	Inv      string            `json:"inv"`
	Sig      string            `json:"sig"`
	Detail   string            `json:"detail"`
	Files    map[string][]byte `json:"files"`
	Root     string            `json:"root"`
	Order    string            `json:"verif_order"`
	Cfg      BuildCfg          `json:"config"`
	Expect   string            `json:"expect"` // valid | invalid
	Model    *msModel          `json:"model,omitempty"`
}

// msModel is the serialisable part of the executable model of a module set.
type msModel struct {
	Paths    []string         `json:"paths"`
	Edges    [][2]int         `json:"edges"`
	InitOf   map[int][]string `json:"init_of"`
	TopOf    map[int][]string `json:"top_of"`
	RootImps [][]int          `json:"root_imports"`
	RootTail []string         `json:"root_tail"`
}

func (ms *ModSet) model() *msModel {
	m := &msModel{Edges: ms.Edges, InitOf: ms.InitOf, TopOf: ms.TopOf, RootImps: ms.RootImps, RootTail: ms.RootTail}
	for _, x := range ms.Mods {
		m.Paths = append(m.Paths, x.Path)
	}
	return m
}

func (m *msModel) modSet() *ModSet {
	ms := &ModSet{Edges: m.Edges, InitOf: m.InitOf, TopOf: m.TopOf, RootImps: m.RootImps, RootTail: m.RootTail}
	if ms.InitOf == nil {
		ms.InitOf = map[int][]string{}
	}
	if ms.TopOf == nil {
		ms.TopOf = map[int][]string{}
	}
	for i, p := range m.Paths {
		ms.Mods = append(ms.Mods, &gmModule{Idx: i, Path: p})
	}
	return ms
}

// reachable modules from a set of start modules (following Edges)
func (ms *ModSet) reach(start []int) map[int]bool {
	seen := map[int]bool{}
	var walk func(int)
	walk = func(i int) {
		if seen[i] {
			return
		}
		seen[i] = true
		for _, e := range ms.Edges {
			if e[0] == i {
				walk(e[1])
			}
		}
	}
	for _, s := range start {
		walk(s)
	}
	return seen
}

// checkHistory checks the recorded marker history (stdout lines) of a valid set against the model.
func (ms *ModSet) checkHistory(stdout string) (string, string) {
	lines := strings.Split(strings.TrimRight(stdout, "\n"), "\n")
	pos := map[string][]int{}
	for i, l := range lines {
		pos[l] = append(pos[l], i)
	}
	reach := ms.reach([]int{0})
	// (1) exactly once for every reachable module, never for an unreachable one
	for _, m := range ms.Mods[1:] {
		for _, mk := range ms.InitOf[m.Idx] {
			n := len(pos[mk])
			switch {
			case reach[m.Idx] && n == 0:
				return "init-missing", fmt.Sprintf("initialiser %q of reachable module %s never ran", mk, m.Path)
			case reach[m.Idx] && n > 1:
				return "init-repeated", fmt.Sprintf("initialiser %q ran %d times", mk, n)
			case !reach[m.Idx] && n > 0:
				return "init-unreachable", fmt.Sprintf("initialiser %q of a module nobody imports ran", mk)
			}
		}
		// (4) top-level statements of imported modules never run
		for _, mk := range ms.TopOf[m.Idx] {
			if len(pos[mk]) > 0 {
				return "toplevel-ran", fmt.Sprintf("top-level statement %q of imported module %s was executed", mk, m.Path)
			}
		}
	}
	first := func(mod int) int {
		f := -1
		for _, mk := range ms.InitOf[mod] {
			if p := pos[mk]; len(p) > 0 && (f < 0 || p[0] < f) {
				f = p[0]
			}
		}
		return f
	}
	last := func(mod int) int {
		l := -1
		for _, mk := range ms.InitOf[mod] {
			if p := pos[mk]; len(p) > 0 && p[len(p)-1] > l {
				l = p[len(p)-1]
			}
		}
		return l
	}
	// (2) dependencies first: for every edge A -> B between imported modules all of B's initialisers precede A's
	for _, e := range ms.Edges {
		a, b := e[0], e[1]
		if a == 0 || !reach[a] {
			continue
		}
		if fa, lb := first(a), last(b); fa >= 0 && lb >= 0 && lb > fa {
			return "init-order", fmt.Sprintf("module %s imports %s, but an initialiser of %s (line %d) ran before one of %s (line %d)", ms.Mods[a].Path, ms.Mods[b].Path, ms.Mods[a].Path, fa, ms.Mods[b].Path, lb)
		}
	}
	// (3) before the importer's code that follows the import
	for k, mods := range ms.RootImps {
		marker := fmt.Sprintf("haupt nach import %d", k)
		mp := pos[marker]
		if len(mp) != 1 {
			return "root-marker", fmt.Sprintf("root statement %q printed %d times", marker, len(mp))
		}
		for j := range ms.reach(mods) {
			if l := last(j); l > mp[0] {
				return "init-after-use", fmt.Sprintf("an initialiser of %s (reachable through root import %d) ran after the root statement following that import", ms.Mods[j].Path, k)
			}
		}
	}
	// (5) same-named declarations stay distinct: the root's calls print their own module's helper
	if len(lines) < len(ms.RootTail) {
		return "calls", fmt.Sprintf("expected %d call lines at the end, got %d lines in total", len(ms.RootTail), len(lines))
	}
	tail := lines[len(lines)-len(ms.RootTail)-len(ms.TopOf[0]):]
	for i, want := range ms.RootTail {
		if tail[i] != want {
			return "calls", fmt.Sprintf("call line %d: expected %q, got %q (same-named declarations of different modules mixed up?)", i, want, tail[i])
		}
	}
	return "", ""
}

// invalidVariant derives an ill-formed set from a valid one (one illegal thing, expected to be rejected).
func invalidVariant(ms *ModSet, r *prng.R) (*simdisk.Tree, string) {
	t := ms.Tree.Clone()
	kind := r.Intn(7)
	if ms.Structs && r.Chance(0.3) {
		// private fields of a Kombination stay private when only a function returning it is imported, and when
		// another Kombination of the same name (where the field is public) is in scope
		if r.Bool() {
			t.Files[ms.Root] = []byte("Binde \"aus\" ein.\nBinde mache_a aus \"k_a\" ein.\nDie Zahl verboten ist geheim von (ein Punkt wie a ihn macht).\n")
			return t, "private field of a Kombination whose type name was not imported (selective import of a function returning it)"
		}
		t.Files[ms.Root] = []byte("Binde \"aus\" ein.\nBinde \"k_a\" ein.\nBinde mache_b aus \"k_b\" ein.\nDie Zahl verboten ist verborgen von (ein Punkt wie b ihn macht).\n")
		return t, "private field of a Kombination while a same-named Kombination of another module with that field public is in scope"
	}
	if kind >= 5 {
		// a selective import that lists a name the imported module does not declare itself but only imports
		// (re-export), or a private name of it: the root is replaced by a minimal importer
		type cand struct {
			via  *gmModule
			name string
			use  string
			what string
		}
		var cands []cand
		for _, j := range ms.Mods[1:] {
			for _, imp := range j.Imports {
				if imp.Target <= 0 {
					continue
				}
				k := ms.Mods[imp.Target]
				vars, funcs := publicNamesOf(k)
				listed := map[string]bool{}
				for _, n := range imp.Names {
					listed[n] = true
				}
				for _, v := range vars {
					if len(imp.Names) == 0 || listed[v] {
						cands = append(cands, cand{j, v, fmt.Sprintf("Die Zahl verboten ist %s plus 1.", v), "selective import of a name the module only imports (re-export of " + k.Path + ")"})
					}
				}
				for _, f := range funcs {
					if len(imp.Names) == 0 || listed[f.Name] {
						cands = append(cands, cand{j, f.Name, f.Alias + ".", "selective import of a function the module only imports (re-export of " + k.Path + ")"})
					}
				}
			}
			for _, v := range j.Vars {
				if !v.Public {
					cands = append(cands, cand{j, v.Name, fmt.Sprintf("Die Zahl verboten ist %s plus 1.", v.Name), "selective import of a private name"})
				}
			}
		}
		if len(cands) > 0 {
			c := prng.Pick(r, cands)
			root := fmt.Sprintf("Binde \"aus\" ein.\nBinde %s aus \"%s\" ein.\n%s\n", c.name, strings.TrimSuffix(c.via.Path, ".ddp"), c.use)
			t.Files[ms.Root] = []byte(root)
			return t, c.what + " " + c.name
		}
	}
	if kind <= 2 && len(ms.Invisible) > 0 {
		inv := prng.Pick(r, ms.Invisible)
		t.Files[ms.Root] = append(append([]byte{}, t.Files[ms.Root]...), []byte(inv.Use+"\n")...)
		return t, "use of " + inv.Kind + " name " + inv.Name
	}
	if kind == 3 && len(ms.Mods) > 1 {
		// mutual import: some imported module imports an ancestor (cycle of length >= 2) or itself (length 1)
		reach := ms.reach([]int{0})
		var cands []*gmModule
		for _, m := range ms.Mods[1:] {
			if reach[m.Idx] {
				cands = append(cands, m)
			}
		}
		if len(cands) > 0 {
			m := prng.Pick(r, cands)
			target := m
			if r.Bool() {
				// an ancestor: any module that reaches m
				for _, a := range ms.Mods {
					if a.Idx != m.Idx && ms.reach([]int{a.Idx})[m.Idx] {
						target = a
						break
					}
				}
			}
			rel, _ := filepath.Rel(filepath.Dir(m.Path), strings.TrimSuffix(target.Path, ".ddp"))
			t.Files[m.Path] = append([]byte(fmt.Sprintf("Binde \"%s\" ein.\n", filepath.ToSlash(rel))), t.Files[m.Path]...)
			return t, fmt.Sprintf("import cycle %s -> %s", m.Path, target.Path)
		}
	}
	// import of a missing module
	t.Files[ms.Root] = append([]byte("Binde \"gibt_es_nicht\" ein.\n"), t.Files[ms.Root]...)
	return t, "import of a missing module"
}

func checkC10(tier string) int {
	thorough := tier == "thorough"
	bin, err := buildFrontw(true)
	if err != nil {
		infra("%v", err)
	}
	nSets := 80
	if thorough {
		nSets = 2500
	}
	var sets []*ModSet
	var jobs []fwproto.Job
	type jmeta struct {
		set     int
		invalid bool
		what    string
	}
	var metas []jmeta
	for n := 0; n < nSets; n++ {
		r := prng.Stream(seed, "c10", "set", n)
		ms := genModuleSet(r, genModOpts{})
		sets = append(sets, ms)
		specs := orderSpecs(r, false)[:6]
		j := fwproto.Job{ID: len(jobs), Tree: ms.Tree, Root: ms.Root, Source: true, Steps: []fwproto.Step{{Fresh: true}}}
		for _, s := range specs {
			j.Steps = append(j.Steps, fwproto.Step{Fresh: true, Order: s})
		}
		jobs = append(jobs, j)
		metas = append(metas, jmeta{n, false, ""})
		// two ill-formed variants of the same set
		for v := 0; v < 2; v++ {
			t, what := invalidVariant(ms, r)
			ji := fwproto.Job{ID: len(jobs), Tree: t, Root: ms.Root, Source: true, Steps: []fwproto.Step{{Fresh: true}}}
			for _, s := range specs[:3] {
				ji.Steps = append(ji.Steps, fwproto.Step{Fresh: true, Order: s})
			}
			jobs = append(jobs, ji)
			metas = append(metas, jmeta{n, true, what})
		}
	}
	logf("C10/%s seed=%d: %d module sets, %d frontend jobs", tier, seed, nSets, len(jobs))
	pool := &Pool{Bin: bin, Env: []string{"DDPPATH=" + filepath.Join(repoRoot(), "lib/stdlib")}, Workers: nWorkers, WorkRoot: workRoot, Stage1: 120 * time.Second, ASLimit: 8192}
	t0 := time.Now()
	results, err := pool.Run(jobs, nil)
	if err != nil {
		infra("%v", err)
	}
	wallA := time.Since(t0)
	type viol struct {
		sig, detail string
		set         int
		tree        *simdisk.Tree
		order       string
		expect      string
		cfg         *BuildCfg
	}
	groups := map[string]*viol{}
	counts := map[string]int{}
	add := func(v *viol) {
		counts[v.sig]++
		if _, ok := groups[v.sig]; !ok {
			groups[v.sig] = v
		}
	}
	calls := 0
	evHash := sha256.New()
	shapes := map[string]bool{}
	genBad := 0
	for i := range results {
		r := &results[i]
		m := metas[i]
		ms := sets[m.set]
		if r.Infra != "" {
			infra("job %d: %s", i, r.Infra)
		}
		if r.Died != "" || len(r.Calls) == 0 {
			continue
		}
		for s := range r.Calls {
			c := &r.Calls[s]
			calls++
			nErr := 0
			var first fwproto.Diag
			for _, d := range c.Diags {
				if d.Level == 2 {
					if nErr == 0 {
						first = d
					}
					nErr++
				}
			}
			fmt.Fprintf(evHash, "%d/%d err=%d faulty=%t\n", i, s, nErr, c.Faulty)
			ord := "identity"
			if jobs[i].Steps[s].Order != nil {
				ord = fmt.Sprintf("%s:%d", jobs[i].Steps[s].Order.Family, jobs[i].Steps[s].Order.Seed)
			}
			switch {
			case !m.invalid && (nErr > 0 || c.Faulty || c.Err != ""):
				if s == 0 {
					genBad++
				}
				add(&viol{fmt.Sprintf("frontend|valid-set-rejected|%d", first.Code), fmt.Sprintf("a well-formed module set is rejected under order %s: (%d) %s @%v in %s\n  kinds %v", ord, first.Code, first.Msg, first.Range, first.File, ms.Kinds), m.set, ms.Tree, ord, "valid", nil})
			case m.invalid && nErr == 0 && c.Err == "":
				add(&viol{"frontend|invalid-set-accepted|" + strings.SplitN(m.what, " ", 4)[0] + "-" + strings.SplitN(m.what+" x x", " ", 4)[2], fmt.Sprintf("an ill-formed module set (%s) is accepted without any error under order %s", m.what, ord), m.set, jobs[i].Tree, ord, "invalid", nil})
			}
			shapes[fmt.Sprintf("%v|%d|%t|%d", ms.Kinds, len(ms.Mods), m.invalid, nErr)] = true
		}
	}
	if genBad*10 > nSets {
		infra("%d of %d generated module sets are rejected under the identity order (generator bug)", genBad, nSets)
	}

	// level B: compile and run the valid sets under permuted orders and check the recorded history
	tc := buildToolchain()
	buildKddpOrd(tc)
	nB := 25
	if thorough {
		nB = 600
	}
	if nB > nSets {
		nB = nSets
	}
	nOrd := 3
	if thorough {
		nOrd = 6
	}
	var mu sync.Mutex
	var wg sync.WaitGroup
	sem := make(chan struct{}, nWorkers)
	bRuns := 0
	t1 := time.Now()
	var samples []any
	// level B budget: sets with directory imports first (up to half of it), then the rest in order
	var bSets []int
	{
		picked := map[int]bool{}
		for n := 0; n < nSets && len(bSets) < nB/2; n++ {
			for _, k := range sets[n].Kinds {
				if k == "dir_import" {
					bSets = append(bSets, n)
					picked[n] = true
					break
				}
			}
		}
		for n := 0; n < nSets && len(bSets) < nB; n++ {
			if !picked[n] {
				bSets = append(bSets, n)
			}
		}
	}
	for _, n := range bSets {
		wg.Add(1)
		go func(n int) {
			defer wg.Done()
			sem <- struct{}{}
			defer func() { <-sem }()
			ms := sets[n]
			pr := prng.Stream(seed, "c10", "levelB", n)
			p := &HProg{Name: fmt.Sprintf("c10set#%d", n), Root: ms.Root, Files: ms.Tree.Files}
			cfg := BuildCfg{O: pr.Intn(3), LinkMods: true, LinkList: pr.Bool()}
			orders := []string{"identity:0", "reverse:0"}
			for k := 2; k < nOrd; k++ {
				orders = append(orders, fmt.Sprintf("%s:%d", prng.Pick(pr, []string{"rotate", "random", "transpose"}), pr.Uint64()>>1))
			}
			dir := filepath.Join(workRoot, fmt.Sprintf("c10b%d", n))
			defer os.RemoveAll(dir)
			for _, ord := range orders {
				o := compileAndRunOrdered(tc, p, dir, ord, cfg)
				mu.Lock()
				bRuns++
				mu.Unlock()
				var v *viol
				switch {
				case o.KddpRC != 0 || !o.Built:
					v = &viol{"run|valid-set-not-built", fmt.Sprintf("well-formed module set does not compile under %s (%s):\n%s", ord, cfg, firstLines(o.KddpOut, 10)), n, ms.Tree, ord, "valid", nil}
				case o.Exit != 0 || o.Class != "none":
					v = &viol{"run|abnormal-exit", fmt.Sprintf("program of a well-formed module set ends with exit %d (%s) under %s", o.Exit, o.Class, ord), n, ms.Tree, ord, "valid", nil}
				default:
					if sig, detail := ms.checkHistory(o.Stdout); sig != "" {
						v = &viol{"history|" + sig, fmt.Sprintf("%s\n  order %s, %s, kinds %v\n  recorded history:\n  %s", detail, ord, cfg, ms.Kinds, strings.ReplaceAll(strings.TrimSpace(o.Stdout), "\n", "\n  ")), n, ms.Tree, ord, "valid", nil}
					}
				}
				mu.Lock()
				if v != nil {
					v.order = ord
					c := cfg
					v.cfg = &c
					add(v)
				}
				if len(samples) < 3 && ord == "reverse:0" {
					samples = append(samples, map[string]any{"modules": len(ms.Mods), "kinds": ms.Kinds, "edges": ms.Edges, "order": ord, "history": strings.Split(strings.TrimSpace(o.Stdout), "\n")})
				}
				mu.Unlock()
			}
			// one ill-formed variant through the real CLI: non-zero exit, no executable
			t, what := invalidVariant(ms, pr)
			ip := &HProg{Name: p.Name + "-invalid", Root: ms.Root, Files: t.Files}
			o := compileAndRunOrdered(tc, ip, dir, "identity:0", cfg)
			mu.Lock()
			bRuns++
			if o.KddpRC == 0 || o.Built {
				add(&viol{"run|invalid-set-built", fmt.Sprintf("ill-formed module set (%s) compiles: kddp exit %d, executable exists=%t", what, o.KddpRC, o.Built), n, t, "identity:0", "invalid", nil})
			}
			mu.Unlock()
		}(n)
	}
	wg.Wait()
	wallB := time.Since(t1)

	known := loadKnown()
	keys := make([]string, 0, len(groups))
	for k := range groups {
		keys = append(keys, k)
	}
	sort.Strings(keys)
	newViol := 0
	os.MkdirAll(filepath.Join(verifDir, "replays"), 0o755)
	for _, k := range keys {
		v := groups[k]
		if known.match("C10", "C10.modules", v.sig) != nil {
			continue
		}
		newViol++
		rp := &c10Replay{Property: "C10", Engine: "c10", Seed: seed, Inv: "C10.modules", Sig: v.sig, Detail: v.detail, Files: v.tree.Files, Root: "haupt.ddp", Order: v.order, Expect: v.expect, Cfg: BuildCfg{O: 1, LinkMods: true, LinkList: true}}
		if v.cfg != nil {
			rp.Cfg = *v.cfg
		}
		if v.expect == "valid" {
			rp.Model = sets[v.set].model()
		}
		path := filepath.Join(verifDir, "replays", fmt.Sprintf("C10-seed%d-%s.json", seed, shortHash(v.sig)))
		b, _ := json.MarshalIndent(rp, "", " ")
		os.WriteFile(path, b, 0o644)
		fmt.Printf("VIOLATION property=C10 replay=%s\n  %q in %d runs\n  %s\n", path, v.sig, counts[k], firstLines(v.detail, 24))
	}
	ev := &Evidence{PropertyID: "C10", Tier: tier, Seed: int64(seed), Level: "exploration", Violations: newViol}
	ev.Coverage = map[string]any{
		"evaluations":         calls + bRuns,
		"distinct_nontrivial": len(shapes),
		"rule": "one evaluation = one Parse of a generated module set (2-7 modules: chains, diamonds, selective / whole / directory imports, odd path spellings; plus ill-formed variants: private / unlisted / not imported names, cycles, missing modules) under one map-iteration order, or one kddp-ord build + execution whose stdout is the recorded initialisation history checked against the model. " +
			"distinct_nontrivial = distinct (import-shape kinds, #modules, well-formed?, #errors) combinations",
		"samples":              samples,
		"module_sets":          nSets,
		"frontend_calls":       calls,
		"compiled_and_run":     bRuns,
		"runs_per_hour":        perHour(calls, wallA) + perHour(bRuns, wallB),
		"seeds_per_hour":       perHour(1, time.Since(startT)),
		"simulated_time_s":     0,
		"simulated_time_note":  "no clock involved; the dimensions are the arrangement of the module tree on the simulated disk and map iteration order",
		"event_log_sha256":     hex.EncodeToString(evHash.Sum(nil)),
		"violation_groups":     len(groups),
		"components_real":      []string{"whole frontend", "kddp-ord (overlay-instrumented kddp) incl. LLVM, linker", "produced executables"},
		"components_simulated": []string{"module tree on the simulated disk", "Go map iteration order"},
		"visibility_note":      "the visibility half of C10 is a static function of the module set; it is evaluated on the same generated sets by the same model (model-based generation rather than fault injection)",
		"exhaustive":           false,
	}
	ev.Assumptions = []string{"the model checks partial-order constraints only (exactly once, dependencies first, before the importer's following code), never a total order", "generated modules use a shared helper module for output; every module imports it (a permanent diamond)"}
	writeEvidence(ev)
	logf("C10 done: %d frontend calls, %d compiled runs, %d violation groups (%d new)", calls, bRuns, len(groups), newViol)
	if newViol > 0 {
		return 1
	}
	return 0
}

// replayC10 re-executes a C10 replay file through kddp-ord.
func replayC10(path string) bool {
	b, err := os.ReadFile(path)
	if err != nil {
		infra("cannot read %s: %v", path, err)
	}
	var rp c10Replay
	if err := json.Unmarshal(b, &rp); err != nil {
		infra("replay does not parse: %v", err)
	}
	tc := buildToolchain()
	buildKddpOrd(tc)
	p := &HProg{Name: "c10replay", Root: rp.Root, Files: rp.Files}
	ord := rp.Order
	if !strings.Contains(ord, ":") {
		ord = "identity:0"
	}
	o := compileAndRunOrdered(tc, p, filepath.Join(workRoot, "c10replay"), ord, rp.Cfg)
	if rp.Expect == "invalid" {
		return o.KddpRC == 0 || o.Built
	}
	if o.KddpRC != 0 || !o.Built || o.Exit != 0 {
		return true
	}
	if rp.Model != nil {
		sig, _ := rp.Model.modSet().checkHistory(o.Stdout)
		return sig != ""
	}
	seen := map[string]int{}
	for _, l := range strings.Split(o.Stdout, "\n") {
		if strings.HasPrefix(l, "init ") {
			seen[l]++
			if seen[l] > 1 {
				return true
			}
		}
		if strings.HasPrefix(l, "top m") && !strings.HasPrefix(l, "top m0:") {
			return true
		}
	}
	return false
}
