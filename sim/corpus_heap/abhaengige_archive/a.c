#include <stdint.h>
int64_t helper_b(int64_t x);
int64_t fa(int64_t x) { return helper_b(x) + 1; }
