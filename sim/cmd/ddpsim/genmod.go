package main

import (
	"fmt"
	"path/filepath"
	"sort"
	"strings"

	"ddpsim/prng"
	"ddpsim/simdisk"
)

// ---------------------------------------------------------------------------------------------
// W-gen-mod: seeded generator of module sets together with a small executable model of DDP's
// module semantics (visible names, initialisation history).
// ---------------------------------------------------------------------------------------------

type genModOpts struct {
	Faulty  bool // allow cycles, missing files, filesystem objects, odd path spellings
	Aliases bool // declare extra aliases (colliding / non colliding) for C20 system level
	Clashes bool // allow name clashes / references to private names (expected diagnostics)
}

type gmVar struct {
	Name   string
	Public bool
	Pos    int // placed after import #Pos (0 = before all imports)
}

type gmFunc struct {
	Name   string
	Public bool
	Alias  string
}

type gmImport struct {
	Target   int      // module index; -1 for directory imports
	Spelling string   // text inside the quotes
	Names    []string // selective import
	Dir      string   // directory import
	Rec      bool
}

type gmModule struct {
	Idx     int
	Path    string // relative file name
	Imports []gmImport
	Vars    []gmVar
	Funcs   []gmFunc
	Top     int // number of top-level marker statements
}

type ModSet struct {
	Tree  *simdisk.Tree
	Root  string
	Mods  []*gmModule
	Kinds []string
	// model
	Valid      bool                // the set must compile without diagnostics
	ExpectErr  string              // "" | "cycle" | "private" | "missing" ... (at least one error expected)
	Edges      [][2]int            // import edges A->B (module indices), resolved
	RootEvents []string            // ordered root-level events: "import:<k>" / "stmt:<marker>"
	InitOf     map[int][]string    // module -> its initialiser markers in textual order
	TopOf      map[int][]string    // module -> its top-level statement markers (must never appear for non-root)
	Calls      map[string]string   // marker printed by calling a root-visible function -> owning module tag
	Visible    map[int][]string    // module -> names visible after all imports (model)
	ImportMods map[string][]int    // root event "import:<k>" -> modules it names directly
	Extra      map[string][]string // free-form notes for evidence
	RootTail   []string            // expected last lines of stdout: the root's calls after all imports
	Invisible  []invisibleName     // names the root must NOT be able to use (model)
	RootImps   [][]int             // per root import: modules it names directly
	// Structs: the set carries the Kombination scenario (k_a.ddp, k_b.ddp: same-named public Kombinationen with different
	// defaults, a private field, a Kombination whose field default is a value of the module's own Punkt)
	Structs       bool
	structVals    [5]int // defaults: a.x, a.geheim, b.x, b.radius, root's own x
	structVariant int
}

const structModA = `Binde "aus" ein.

Wir nennen die öffentliche Kombination aus
	der öffentlichen Zahl x mit Standardwert %d,
	der Zahl geheim mit Standardwert %d,
	der öffentlichen Zahl verborgen mit Standardwert 1,
einen Punkt, und erstellen sie so:
	"ein a-Punkt"

Die öffentliche Funktion a_geheim mit dem Parameter p vom Typ Punkt, gibt eine Zahl zurück, macht:
	Gib geheim von p zurück.
Und kann so benutzt werden:
	"das Geheimnis von <p> laut a"

Die öffentliche Funktion mache_a gibt einen Punkt zurück, macht:
	Gib ein a-Punkt zurück.
Und kann so benutzt werden:
	"ein Punkt wie a ihn macht"
`

const structModB = `Binde "aus" ein.

Wir nennen die öffentliche Kombination aus
	der öffentlichen Zahl x mit Standardwert %d,
	der Zahl verborgen mit Standardwert 2,
einen Punkt, und erstellen sie so:
	"ein b-Punkt"

Die öffentliche Funktion mache_b gibt einen Punkt zurück, macht:
	Gib ein b-Punkt zurück.
Und kann so benutzt werden:
	"ein Punkt wie b ihn macht"

Wir nennen die öffentliche Kombination aus
	dem öffentlichen Punkt mitte mit Standardwert ein b-Punkt,
	der öffentlichen Zahl radius mit Standardwert %d,
einen Kreis, und erstellen sie so:
	"ein Kreis"

Die öffentliche Funktion b_mitte_x gibt eine Zahl zurück, macht:
	Gib x von mitte von (ein Kreis) zurück.
Und kann so benutzt werden:
	"das x der Mitte laut b"
`

type invisibleName struct {
	Kind string // private-func | private-var | unlisted | not-imported
	Use  string // a root statement using the name
	Name string
}

const ausModule = `Die öffentliche Funktion Schreibe_Text mit dem Parameter p1 vom Typ Text, gibt nichts zurück,
ist in "libddpstdlib.a" definiert
und kann so benutzt werden:
	"drucke roh <p1>"

Die öffentliche Funktion drucke_zeile mit dem Parameter t vom Typ Text, gibt nichts zurück, macht:
	drucke roh t.
	drucke roh "\n".
Und kann so benutzt werden:
	"drucke <t>"

Die öffentliche Funktion melde_fn mit dem Parameter t vom Typ Text, gibt eine Zahl zurück, macht:
	drucke roh t.
	drucke roh "\n".
	Gib 1 zurück.
Und kann so benutzt werden:
	"melde <t>"
`

func modTag(i int) string { return fmt.Sprintf("m%d", i) }

func genModuleSet(r *prng.R, o genModOpts) *ModSet {
	ms := &ModSet{Tree: &simdisk.Tree{Files: map[string][]byte{}}, Root: "haupt.ddp", Valid: true,
		InitOf: map[int][]string{}, TopOf: map[int][]string{}, Calls: map[string]string{}, Visible: map[int][]string{},
		ImportMods: map[string][]int{}, Extra: map[string][]string{}}
	n := r.Range(2, 7)
	// layout: some modules live in sub directories; "directory heavy" sets keep most modules in one directory
	// that the root imports as a whole (members depend on each other and are also reached from outside)
	dirHeavy := r.Chance(0.3)
	if dirHeavy {
		n = r.Range(4, 7)
	}
	dirs := []string{"", "", "", "pkg", "pkg/tief", "lib"}
	for i := 0; i < n; i++ {
		m := &gmModule{Idx: i}
		if i == 0 {
			m.Path = "haupt.ddp"
		} else {
			d := ""
			if dirHeavy {
				switch x := r.Intn(20); {
				case x < 14:
					d = "pkg"
				case x < 16:
					d = "pkg/tief"
				}
			} else if r.Chance(0.35) {
				d = prng.Pick(r, dirs)
			}
			m.Path = filepath.Join(d, modTag(i)+".ddp")
		}
		ms.Mods = append(ms.Mods, m)
	}
	kinds := map[string]bool{}
	// two modules whose paths differ only in '/' versus '_' (pkg/m3.ddp and pkg_m3.ddp): distinct modules all the same
	if !dirHeavy && r.Chance(0.12) {
		var inDir, top []*gmModule
		for _, m := range ms.Mods[1:] {
			if d := filepath.Dir(m.Path); d == "." {
				top = append(top, m)
			} else if !strings.Contains(d, "/") {
				inDir = append(inDir, m)
			}
		}
		if len(inDir) > 0 && len(top) > 0 {
			a, b := prng.Pick(r, inDir), prng.Pick(r, top)
			b.Path = strings.ReplaceAll(a.Path, "/", "_")
			kinds["similar_paths"] = true
		}
	}
	// declarations
	for _, m := range ms.Mods {
		if m.Idx == 0 {
			continue
		}
		nv := r.Range(1, 3)
		for k := 0; k < nv; k++ {
			m.Vars = append(m.Vars, gmVar{Name: fmt.Sprintf("v%d_%d", m.Idx, k), Public: r.Chance(0.6)})
		}
		// a same-named private helper in every module, and a unique public function
		m.Funcs = append(m.Funcs, gmFunc{Name: "hilfs", Public: false, Alias: "hilfs"})
		m.Funcs = append(m.Funcs, gmFunc{Name: fmt.Sprintf("f%d", m.Idx), Public: true, Alias: fmt.Sprintf("rufe f%d", m.Idx)})
		if r.Chance(0.4) {
			m.Funcs = append(m.Funcs, gmFunc{Name: fmt.Sprintf("p%d", m.Idx), Public: false, Alias: fmt.Sprintf("rufe p%d", m.Idx)})
		}
		m.Top = r.Intn(3)
	}
	// import DAG: i -> j only for j > i, so acyclic by construction
	publicNames := func(j int) []string {
		var out []string
		for _, v := range ms.Mods[j].Vars {
			if v.Public {
				out = append(out, v.Name)
			}
		}
		for _, f := range ms.Mods[j].Funcs {
			if f.Public {
				out = append(out, f.Name)
			}
		}
		return out
	}
	spell := func(from, to *gmModule) string {
		rel, _ := filepath.Rel(filepath.Dir(from.Path), strings.TrimSuffix(to.Path, ".ddp"))
		rel = filepath.ToSlash(rel)
		if !o.Faulty && !r.Chance(0.3) {
			return rel
		}
		switch r.Intn(5) {
		case 0:
			kinds["spelling"] = true
			return "./" + rel
		case 1:
			kinds["spelling"] = true
			d := filepath.Dir(rel)
			if d == "." {
				return "x/../" + rel // x need not exist for a purely lexical Clean
			}
			return rel
		case 2:
			kinds["spelling"] = true
			return strings.ReplaceAll(rel, "/", "//")
		}
		return rel
	}
	for i := 0; i < n; i++ {
		m := ms.Mods[i]
		for j := i + 1; j < n; j++ {
			p := 0.45
			if i == 0 {
				p = 0.6
			}
			if !r.Chance(p) {
				continue
			}
			imp := gmImport{Target: j, Spelling: spell(m, ms.Mods[j])}
			if pn := publicNames(j); len(pn) > 0 && r.Chance(0.35) {
				k := r.Range(1, len(pn))
				perm := r.Perm(len(pn))
				for _, x := range perm[:k] {
					imp.Names = append(imp.Names, pn[x])
				}
				sort.Strings(imp.Names)
				kinds["selective"] = true
			}
			m.Imports = append(m.Imports, imp)
			if (o.Faulty || o.Clashes) && r.Chance(0.15) { // repeated import of the same module (another spelling): an error in DDP
				imp2 := gmImport{Target: j, Spelling: spell(m, ms.Mods[j])}
				m.Imports = append(m.Imports, imp2)
				kinds["repeat"] = true
			}
		}
	}
	// make sure the root imports something
	if len(ms.Mods[0].Imports) == 0 {
		ms.Mods[0].Imports = append(ms.Mods[0].Imports, gmImport{Target: 1, Spelling: strings.TrimSuffix(ms.Mods[1].Path, ".ddp")})
	}
	// directory imports from the root: a directory that holds >=1 module
	if dirHeavy || r.Chance(0.3) {
		for _, d := range []string{"pkg", "lib"} {
			has := false
			for _, m := range ms.Mods[1:] {
				if strings.HasPrefix(m.Path, d+"/") {
					has = true
				}
			}
			if has && (r.Chance(0.6) || (dirHeavy && d == "pkg")) {
				rec := r.Bool()
				// a directory import that names no module at all is accepted by the frontend but makes the code
				// generator fail ("importStmt.Module == nil", a C02 matter): well-formed sets never contain one
				covered := 0
				for _, m := range ms.Mods[1:] {
					if dirCovers(d, rec, m.Path) {
						covered++
					}
				}
				if covered == 0 {
					if o.Faulty {
						kinds["dir_empty"] = true
					} else {
						rec = true
					}
				}
				// a module must not be imported twice by the same importer: drop the explicit imports the directory import covers
				if !o.Faulty && !o.Clashes {
					var keep []gmImport
					for _, imp := range ms.Mods[0].Imports {
						if imp.Target > 0 && dirCovers(d, rec, ms.Mods[imp.Target].Path) {
							continue
						}
						keep = append(keep, imp)
					}
					ms.Mods[0].Imports = keep
				}
				ms.Mods[0].Imports = append(ms.Mods[0].Imports, gmImport{Target: -1, Dir: d, Spelling: d, Rec: rec})
				kinds["dir_import"] = true
			}
		}
	}
	// shuffle root imports so that dependency order differs from textual order
	if r.Chance(0.5) {
		imps := ms.Mods[0].Imports
		p := r.Perm(len(imps))
		ni := make([]gmImport, len(imps))
		for a, b := range p {
			ni[a] = imps[b]
		}
		ms.Mods[0].Imports = ni
	}
	// positions of variables relative to imports
	for _, m := range ms.Mods {
		for k := range m.Vars {
			m.Vars[k].Pos = r.Intn(len(m.Imports) + 1)
		}
	}

	// faults in the import structure
	if o.Faulty {
		switch r.Intn(10) {
		case 0, 1: // cycle of length 1..4 through module k
			k := r.Range(1, n-1)
			L := r.Range(1, 4)
			path := []int{k}
			for len(path) < L {
				path = append(path, r.Range(0, n-1))
			}
			for a := 0; a < len(path); a++ {
				from, to := ms.Mods[path[a]], ms.Mods[path[(a+1)%len(path)]]
				from.Imports = append(from.Imports, gmImport{Target: to.Idx, Spelling: spell(from, to)})
			}
			ms.Valid = false
			ms.ExpectErr = "cycle?"
			kinds[fmt.Sprintf("cycle(%d)", L)] = true
		case 2: // import of a missing module
			m := ms.Mods[r.Intn(n)]
			m.Imports = append(m.Imports, gmImport{Target: -2, Spelling: "gibtesnicht"})
			ms.Valid = false
			ms.ExpectErr = "missing"
			kinds["enoent"] = true
		case 3: // over-long name
			m := ms.Mods[r.Intn(n)]
			m.Imports = append(m.Imports, gmImport{Target: -2, Spelling: strings.Repeat("n", 300)})
			ms.Valid = false
			ms.ExpectErr = "missing"
			kinds["enametoolong"] = true
		case 4: // directory import of something that is not a directory / missing / empty
			what := prng.Pick(r, []string{"haupt.ddp", "leer", "fehlt", ".", ".."})
			if what == "leer" {
				ms.Tree.Dirs = append(ms.Tree.Dirs, "leer")
			}
			ms.Mods[0].Imports = append(ms.Mods[0].Imports, gmImport{Target: -1, Dir: what, Spelling: what, Rec: r.Bool()})
			ms.Valid = false
			ms.ExpectErr = "?"
			kinds["dir_odd"] = true
		case 5: // empty path / path with strange characters
			m := ms.Mods[r.Intn(n)]
			m.Imports = append(m.Imports, gmImport{Target: -2, Spelling: prng.Pick(r, []string{"", " ", "/", "\\x", "a\x00b", "Duden", "Duden/", "Duden/../haupt", "~", "m1.ddp"})})
			ms.Valid = false
			ms.ExpectErr = "?"
			kinds["odd_path"] = true
		}
	}

	// same-named Kombinationen of two modules outside the import graph of the model (no initialiser markers)
	if !o.Faulty && r.Chance(0.5) {
		ms.Structs = true
		d := r.Perm(80)
		ms.structVals = [5]int{d[0] + 10, d[1] + 10, d[2] + 10, d[3] + 10, d[4] + 10}
		ms.structVariant = r.Intn(2)
		ms.Tree.Files["k_a.ddp"] = []byte(fmt.Sprintf(structModA, ms.structVals[0], ms.structVals[1]))
		ms.Tree.Files["k_b.ddp"] = []byte(fmt.Sprintf(structModB, ms.structVals[2], ms.structVals[3]))
		kinds["kombinationen"] = true
	}
	// render
	ms.Tree.Files["aus.ddp"] = []byte(ausModule)
	for _, m := range ms.Mods {
		ms.Tree.Files[m.Path] = []byte(renderModule(ms, m, r))
	}
	// filesystem-object faults on generated trees
	if o.Faulty && r.Chance(0.25) && n > 1 {
		k := prng.Pick(r, simdisk.ObjectKinds)
		t := ms.Mods[r.Range(1, n-1)]
		ms.Tree = simdisk.Apply(ms.Tree, simdisk.Fault{Kind: k, File: t.Path}, nil)
		ms.Valid = false
		ms.ExpectErr = "object"
		kinds[k] = true
	}
	if o.Faulty && r.Chance(0.15) {
		// non-ddp entries and nested directories named like modules inside imported directories
		ms.Tree.Files["pkg/notiz.txt"] = []byte("kein ddp\n")
		ms.Tree.Dirs = append(ms.Tree.Dirs, "pkg/ordner.ddp")
		kinds["dir_noise"] = true
		ms.Tree.Prune()
	}
	for k := range kinds {
		ms.Kinds = append(ms.Kinds, k)
	}
	sort.Strings(ms.Kinds)
	return ms
}

// dirCovers: does a (recursive) directory import of dir name the module at path?
func dirCovers(dir string, rec bool, path string) bool {
	if !strings.HasPrefix(path, dir+"/") {
		return false
	}
	rest := strings.TrimPrefix(path, dir+"/")
	return rec || !strings.Contains(rest, "/")
}

func relImport(from *gmModule, target string) string {
	rel, _ := filepath.Rel(filepath.Dir(from.Path), target)
	return filepath.ToSlash(rel)
}

func renderModule(ms *ModSet, m *gmModule, r *prng.R) string {
	var b strings.Builder
	tag := modTag(m.Idx)
	fmt.Fprintf(&b, "Binde \"%s\" ein.\n\n", relImport(m, "aus"))
	emitVars := func(pos int) {
		for _, v := range m.Vars {
			if v.Pos != pos {
				continue
			}
			pub := ""
			if v.Public {
				pub = "öffentliche "
			}
			marker := fmt.Sprintf("init %s:%s", tag, v.Name)
			// several declarations on one line now and then: source order is (line, column), not line alone
			sep := "\n"
			if r.Chance(0.3) {
				sep = " "
			}
			fmt.Fprintf(&b, "Die %sZahl %s ist (melde \"%s\").%s", pub, v.Name, marker, sep)
			ms.InitOf[m.Idx] = append(ms.InitOf[m.Idx], marker)
		}
		if s := b.String(); !strings.HasSuffix(s, "\n") {
			b.WriteString("\n")
		}
	}
	emitVars(0)
	for k, imp := range m.Imports {
		switch {
		case imp.Target == -1:
			rec := ""
			if imp.Rec {
				rec = "rekursiv "
			}
			fmt.Fprintf(&b, "Binde %salle Module aus \"%s\" ein.\n", rec, imp.Spelling)
		case len(imp.Names) > 0:
			fmt.Fprintf(&b, "Binde %s aus \"%s\" ein.\n", joinNames(imp.Names), imp.Spelling)
		default:
			fmt.Fprintf(&b, "Binde \"%s\" ein.\n", imp.Spelling)
		}
		if m.Idx == 0 {
			ev := fmt.Sprintf("import:%d", k)
			ms.RootEvents = append(ms.RootEvents, ev)
			marker := fmt.Sprintf("haupt nach import %d", k)
			fmt.Fprintf(&b, "drucke \"%s\".\n", marker)
			ms.RootEvents = append(ms.RootEvents, "stmt:"+marker)
		}
		emitVars(k + 1)
	}
	b.WriteString("\n")
	for _, f := range m.Funcs {
		pub := ""
		if f.Public {
			pub = "öffentliche "
		}
		fmt.Fprintf(&b, "Die %sFunktion %s gibt nichts zurück, macht:\n", pub, f.Name)
		fmt.Fprintf(&b, "\tdrucke \"call %s:%s\".\n", tag, f.Name)
		if f.Name != "hilfs" {
			b.WriteString("\thilfs.\n")
		}
		fmt.Fprintf(&b, "Und kann so benutzt werden:\n\t\"%s\"\n\n", f.Alias)
	}
	if m.Idx == 0 {
		renderRootBody(ms, &b)
	}
	for k := 0; k < m.Top; k++ {
		marker := fmt.Sprintf("top %s:%d", tag, k)
		fmt.Fprintf(&b, "drucke \"%s\".\n", marker)
		ms.TopOf[m.Idx] = append(ms.TopOf[m.Idx], marker)
	}
	return b.String()
}

func joinNames(ns []string) string {
	switch len(ns) {
	case 1:
		return ns[0]
	case 2:
		return ns[0] + " und " + ns[1]
	}
	return strings.Join(ns[:len(ns)-1], ", ") + " und " + ns[len(ns)-1]
}

// publicNamesOf lists the public variables and functions of module j.
func publicNamesOf(m *gmModule) (vars []string, funcs []gmFunc) {
	for _, v := range m.Vars {
		if v.Public {
			vars = append(vars, v.Name)
		}
	}
	for _, f := range m.Funcs {
		if f.Public {
			funcs = append(funcs, f)
		}
	}
	return
}

// renderRootBody emits the root's own same-named private helper, a use of every name the model says is
// visible, and records what must not be visible.
func renderRootBody(ms *ModSet, b *strings.Builder) {
	root := ms.Mods[0]
	visVars := map[string]bool{}
	visFuncs := map[string]gmFunc{}
	owner := map[string]int{}
	direct := map[int]bool{}
	selective := map[int]map[string]bool{}
	for _, imp := range root.Imports {
		var mods []int
		switch {
		case imp.Target > 0:
			mods = []int{imp.Target}
		case imp.Target == -1:
			for _, m := range ms.Mods[1:] {
				if dirCovers(imp.Dir, imp.Rec, m.Path) {
					mods = append(mods, m.Idx)
				}
			}
		}
		ms.RootImps = append(ms.RootImps, mods)
		for _, j := range mods {
			direct[j] = true
			vars, funcs := publicNamesOf(ms.Mods[j])
			listed := map[string]bool{}
			for _, n := range imp.Names {
				listed[n] = true
			}
			if len(imp.Names) > 0 {
				if selective[j] == nil {
					selective[j] = map[string]bool{}
				}
			}
			for _, v := range vars {
				if len(imp.Names) == 0 || listed[v] {
					visVars[v] = true
					owner[v] = j
				}
			}
			for _, f := range funcs {
				if len(imp.Names) == 0 || listed[f.Name] {
					visFuncs[f.Name] = f
					owner[f.Name] = j
				}
			}
		}
	}
	fmt.Fprintf(b, "Die Funktion hilfs gibt nichts zurück, macht:\n\tdrucke \"call m0:hilfs\".\nUnd kann so benutzt werden:\n\t\"hilfs\"\n\n")
	if ms.Structs {
		v := ms.structVals
		show := func(expr string, want int) {
			fmt.Fprintf(b, "drucke ((%s) als Text).\n", expr)
			ms.RootTail = append(ms.RootTail, fmt.Sprint(want))
		}
		b.WriteString("Binde Kreis und b_mitte_x aus \"k_b\" ein.\n")
		if ms.structVariant == 0 {
			// a's Punkt by name, b's Punkt only inside b's Kreis
			b.WriteString("Binde \"k_a\" ein.\n")
			show("x von (ein a-Punkt)", v[0])
			show("das Geheimnis von (ein a-Punkt) laut a", v[1])
			show("x von (ein Punkt wie a ihn macht)", v[0])
		} else {
			// the root's own private Punkt, which only happens to be called like b's
			fmt.Fprintf(b, "Wir nennen die Kombination aus\n\tder Zahl x mit Standardwert %d,\neinen Punkt, und erstellen sie so:\n\t\"ein eigener Punkt\"\n", v[4])
			show("x von (ein eigener Punkt)", v[4])
		}
		show("x von mitte von (ein Kreis)", v[2])
		show("das x der Mitte laut b", v[2])
		show("radius von (ein Kreis)", v[3])
		// one generic function instantiated with both same-named Kombinationen
		b.WriteString("Die generische Funktion gib_x mit dem Parameter gp vom Typ T, gibt eine Zahl zurück, macht:\n\tGib x von gp zurück.\nUnd kann so benutzt werden:\n\t\"das x von <gp> allgemein\"\n")
		if ms.structVariant == 0 {
			show("das x von (ein a-Punkt) allgemein", v[0])
		} else {
			show("das x von (ein eigener Punkt) allgemein", v[4])
		}
		show("das x von (mitte von (ein Kreis)) allgemein", v[2])
	}
	b.WriteString("hilfs.\n")
	ms.RootTail = append(ms.RootTail, "call m0:hilfs")
	var fnames []string
	for n := range visFuncs {
		fnames = append(fnames, n)
	}
	sort.Strings(fnames)
	for _, n := range fnames {
		f := visFuncs[n]
		fmt.Fprintf(b, "%s.\n", f.Alias)
		tag := modTag(owner[n])
		ms.RootTail = append(ms.RootTail, fmt.Sprintf("call %s:%s", tag, n), fmt.Sprintf("call %s:hilfs", tag))
	}
	var vnames []string
	for n := range visVars {
		vnames = append(vnames, n)
	}
	sort.Strings(vnames)
	for i, n := range vnames {
		fmt.Fprintf(b, "Die Zahl summe%d ist %s plus %d.\n", i, n, i)
	}
	ms.Visible[0] = append(append([]string{}, fnames...), vnames...)
	// what must not be usable in the root
	for _, m := range ms.Mods[1:] {
		for _, f := range m.Funcs {
			if f.Name == "hilfs" {
				continue
			}
			use := f.Alias + "."
			switch {
			case !f.Public && direct[m.Idx]:
				ms.Invisible = append(ms.Invisible, invisibleName{"private-func", use, f.Name})
			case f.Public && !direct[m.Idx]:
				ms.Invisible = append(ms.Invisible, invisibleName{"not-imported", use, f.Name})
			case f.Public && direct[m.Idx]:
				if _, ok := visFuncs[f.Name]; !ok {
					ms.Invisible = append(ms.Invisible, invisibleName{"unlisted", use, f.Name})
				}
			}
		}
		for _, v := range m.Vars {
			use := fmt.Sprintf("Die Zahl verboten ist %s plus 1.", v.Name)
			switch {
			case !v.Public && direct[m.Idx]:
				ms.Invisible = append(ms.Invisible, invisibleName{"private-var", use, v.Name})
			case v.Public && !direct[m.Idx]:
				ms.Invisible = append(ms.Invisible, invisibleName{"not-imported", use, v.Name})
			case v.Public && direct[m.Idx] && !visVars[v.Name]:
				ms.Invisible = append(ms.Invisible, invisibleName{"unlisted", use, v.Name})
			}
		}
	}
	// import edges for the initialisation model
	for _, m := range ms.Mods {
		for _, imp := range m.Imports {
			if imp.Target > 0 {
				ms.Edges = append(ms.Edges, [2]int{m.Idx, imp.Target})
			} else if imp.Target == -1 {
				for _, x := range ms.Mods[1:] {
					if dirCovers(imp.Dir, imp.Rec, x.Path) {
						ms.Edges = append(ms.Edges, [2]int{m.Idx, x.Idx})
					}
				}
			}
		}
	}
}
