package main

import (
	"crypto/sha256"
	"encoding/hex"
	"encoding/json"
	"fmt"
	"os"
	"path/filepath"
	"sort"
	"strings"
	"sync"
	"time"

	"ddpsim/prng"
)

// C11: optimisation level and link mode do not change program behaviour.  The thing varied under
// the seed is the build configuration (the guidance's "randomise tuning knobs per run"); every
// configuration of one program runs on the same simulated heap policy (guard pages, quarantine,
// junk fill), which turns "reads freed or foreign memory" from undefined into a deterministic trap.

type cfgObs struct {
	Cfg      BuildCfg
	BuildRC  int
	BuildOut string
	Stdout   string
	Exit     int
	Class    string
	Ledger   string // informational
}

func (o *cfgObs) behaviour() string {
	if o.BuildRC != 0 {
		return "does not build"
	}
	if o.Class == "timeout" {
		return "timeout" // how much was printed before the limit is a matter of timing, not of behaviour
	}
	return fmt.Sprintf("exit=%d class=%s stdout=%x", o.Exit, o.Class, sha256.Sum256([]byte(o.Stdout)))
}

func cfgsFor(p *HProg, r *prng.R, thorough bool) []BuildCfg {
	var all []BuildCfg
	for _, o := range []int{0, 1, 2} {
		for _, ll := range []bool{true, false} {
			all = append(all, BuildCfg{O: o, LinkMods: true, LinkList: ll})
			if p.SelfContained {
				all = append(all, BuildCfg{O: o, LinkMods: false, LinkList: ll})
			}
		}
	}
	ref := BuildCfg{O: 0, LinkMods: true, LinkList: true}
	if thorough {
		return all
	}
	// quick: the reference, always one -O 2 configuration, plus two more drawn from the seed
	out := []BuildCfg{ref}
	seen := map[BuildCfg]bool{ref: true}
	add := func(c BuildCfg) {
		if !seen[c] {
			seen[c] = true
			out = append(out, c)
		}
	}
	add(BuildCfg{O: 2, LinkMods: true, LinkList: r.Bool()})
	if p.SelfContained {
		// the only configuration in which no LLVM optimisation runs at all (with linked modules the pipeline always runs)
		add(BuildCfg{O: 0, LinkMods: false, LinkList: r.Bool()})
	}
	for len(out) < 4 {
		add(all[r.Intn(len(all))])
	}
	return out
}

type c11Replay struct {
	Property string            `json:"property"`
	Engine   string            `json:"engine"`
	Seed     uint64            `json:"seed"`
	Inv      string            `json:"inv"`
	Sig      string            `json:"sig"`
	Detail   string            `json:"detail"`
	Name     string            `json:"program"`
	Root     string            `json:"root"`
	Files    map[string][]byte `json:"files"`
	Stdin    []byte            `json:"stdin,omitempty"`
	RefCfg   BuildCfg          `json:"reference_config"`
	Cfg      BuildCfg          `json:"config"`
	Policy   HeapPolicy        `json:"heap_policy"`
	Note     string            `json:"note,omitempty"`
}

func observeCfg(tc *Toolchain, p *HProg, cfg BuildCfg, dir string) *cfgObs {
	j := &heapJob{Prog: p, Cfg: cfg, Policies: []HeapPolicy{comparePolicy}}
	o := runHeapJob(tc, j, tc.Kddp, dir)
	obs := &cfgObs{Cfg: cfg, BuildRC: o.BuildRC, BuildOut: o.BuildOut}
	if o.BuildErr != "" {
		infra("kddp did not start: %s", o.BuildErr)
	}
	if o.BuildRC == 0 && len(o.Runs) > 0 {
		res := o.Runs[0].Res
		obs.Stdout, obs.Exit, obs.Class = string(res.Stdout), res.Exit, res.Class
		if res.Report != nil {
			obs.Ledger = fmt.Sprintf("%s events=%d", res.Report.Term, res.Report.Events)
			if len(res.Report.Viol) > 0 {
				obs.Class = "heap-violation:" + res.Report.Viol[0].Inv
			}
		}
	}
	return obs
}

func diffCfg(ref, o *cfgObs) (string, string) {
	switch {
	case ref.BuildRC != 0:
		return "", "" // the reference does not build: not a C11 question
	case o.BuildRC != 0:
		return fmt.Sprintf("build|O%d/mods=%t/list=%t", o.Cfg.O, o.Cfg.LinkMods, o.Cfg.LinkList), fmt.Sprintf("builds under %s but not under %s:\n%s", ref.Cfg, o.Cfg, firstLines(o.BuildOut, 8))
	case ref.Class == "timeout" && o.Class == "timeout":
		return "", ""
	case ref.Class == "resource-limit" || o.Class == "resource-limit":
		return "", "" // the simulated heap gave up (unbounded growth): no statement about the program
	case ref.Exit != o.Exit || ref.Class != o.Class:
		return fmt.Sprintf("status|O%d/mods=%t/list=%t", o.Cfg.O, o.Cfg.LinkMods, o.Cfg.LinkList), fmt.Sprintf("%s: exit %d, %s — %s: exit %d, %s", ref.Cfg, ref.Exit, ref.Class, o.Cfg, o.Exit, o.Class)
	case ref.Stdout != o.Stdout:
		return fmt.Sprintf("stdout|O%d/mods=%t/list=%t", o.Cfg.O, o.Cfg.LinkMods, o.Cfg.LinkList), fmt.Sprintf("standard output differs between %s and %s:\n--- %s\n%s\n--- %s\n%s", ref.Cfg, o.Cfg, ref.Cfg, firstLines(ref.Stdout, 10), o.Cfg, firstLines(o.Stdout, 10))
	}
	return "", ""
}

func c11Has(tc *Toolchain, p *HProg, refCfg, cfg BuildCfg, sig string, idx int) bool {
	ref := observeCfg(tc, p, refCfg, filepath.Join(workRoot, fmt.Sprintf("c11m%da", idx)))
	if ref.BuildRC != 0 {
		return false
	}
	o := observeCfg(tc, p, cfg, filepath.Join(workRoot, fmt.Sprintf("c11m%db", idx)))
	s, _ := diffCfg(ref, o)
	return s == sig
}

func minimiseC11(tc *Toolchain, p *HProg, refCfg, cfg BuildCfg, sig string) *HProg {
	deadline := time.Now().Add(150 * time.Second)
	clone := func(c *HProg) *HProg {
		d := &HProg{Name: c.Name, Root: c.Root, Files: map[string][]byte{}, Stdin: c.Stdin, Args: c.Args, SelfContained: c.SelfContained}
		for k, v := range c.Files {
			d.Files[k] = v
		}
		return d
	}
	cur := clone(p)
	tries := 0
	for pass := 0; pass < 2; pass++ {
		var chunks [][]byte
		if pass == 0 {
			chunks = splitParagraphs(cur.Files[cur.Root])
		} else {
			chunks = splitLinesKeep(cur.Files[cur.Root])
		}
		gran := 2
		for len(chunks) >= 2 && time.Now().Before(deadline) {
			sz := (len(chunks) + gran - 1) / gran
			var cands []*HProg
			var cc [][][]byte
			for s := 0; s < len(chunks); s += sz {
				e := min(s+sz, len(chunks))
				x := append(append([][]byte{}, chunks[:s]...), chunks[e:]...)
				c := clone(cur)
				c.Files[c.Root] = joinBytes(x)
				cands = append(cands, c)
				cc = append(cc, x)
			}
			ok := make([]bool, len(cands))
			var wg sync.WaitGroup
			sem := make(chan struct{}, nWorkers/2+1)
			for i := range cands {
				wg.Add(1)
				tries++
				go func(i, id int) {
					defer wg.Done()
					sem <- struct{}{}
					defer func() { <-sem }()
					ok[i] = c11Has(tc, cands[i], refCfg, cfg, sig, id)
				}(i, tries)
			}
			wg.Wait()
			hit := -1
			for i := range ok {
				if ok[i] {
					hit = i
					break
				}
			}
			if hit >= 0 {
				cur, chunks = cands[hit], cc[hit]
				gran = max(gran-1, 2)
				continue
			}
			if gran >= len(chunks) {
				break
			}
			gran = min(gran*2, len(chunks))
		}
	}
	return cur
}

func checkC11(tier string) int {
	tc := buildToolchain()
	thorough := tier == "thorough"
	progs := corpusHProgs(tc)
	nGen := 160
	if thorough {
		nGen = 3000
	}
	nGen = envInt("VERIF_GEN", nGen)
	if !thorough {
		// a seeded half of the corpus in the quick tier
		r := prng.Stream(seed, "c11", "corpus-sample")
		var keep []*HProg
		for _, p := range progs {
			if r.Chance(0.4) {
				keep = append(keep, p)
			}
		}
		progs = keep
	}
	for i := 0; i < nGen; i++ {
		gr := prng.Stream(seed, "c11", "gen", i)
		// all optimisation levels run the same program, so the construct of the recorded -O 2 finding is avoided throughout
		// a third of the programs may contain one out-of-domain operation: "whether and which run-time error occurs"
		progs = append(progs, genOwnProgramFull(gr, i, false, i%2 == 0, i%3 == 0))
	}
	type task struct {
		p    *HProg
		cfgs []BuildCfg
	}
	var tasks []task
	nObs := 0
	for _, p := range progs {
		r := prng.Stream(seed, "c11", "cfgs", p.Name)
		t := task{p: p, cfgs: cfgsFor(p, r, thorough)}
		nObs += len(t.cfgs)
		tasks = append(tasks, t)
	}
	logf("heapsim C11/%s seed=%d: %d programs, %d (program, configuration) builds", tier, seed, len(tasks), nObs)
	obs := make([][]*cfgObs, len(tasks))
	var wg sync.WaitGroup
	sem := make(chan struct{}, nWorkers)
	t0 := time.Now()
	for ti := range tasks {
		obs[ti] = make([]*cfgObs, len(tasks[ti].cfgs))
		for ci := range tasks[ti].cfgs {
			wg.Add(1)
			go func(ti, ci int) {
				defer wg.Done()
				sem <- struct{}{}
				defer func() { <-sem }()
				obs[ti][ci] = observeCfg(tc, tasks[ti].p, tasks[ti].cfgs[ci], filepath.Join(workRoot, fmt.Sprintf("c11-%d-%d", ti, ci)))
			}(ti, ci)
		}
	}
	wg.Wait()
	wall := time.Since(t0)

	groups := map[string]*violGroup{}
	type where struct{ t, c int }
	firstAt := map[string]where{}
	cfgFired := map[string]int{}
	behaviours := map[string]bool{}
	refFail, genRejected, nondet := 0, 0, 0
	evHash := sha256.New()
	var samples []any
	for ti, t := range tasks {
		ref := obs[ti][0]
		if ref.BuildRC != 0 {
			refFail++
			if strings.HasPrefix(t.p.Name, "gen-own#") {
				genRejected++
			} else {
				logf("reference configuration does not build %s:\n%s", t.p.Name, firstLines(ref.BuildOut, 6))
			}
			continue
		}
		for ci, o := range obs[ti] {
			cfgFired[o.Cfg.String()]++
			behaviours[t.p.Name+"|"+o.behaviour()] = true
			fmt.Fprintf(evHash, "%s|%s|%s\n", t.p.Name, o.Cfg, o.behaviour())
			if ci == 0 {
				continue
			}
			sig, detail := diffCfg(ref, o)
			if sig == "" {
				continue
			}
			key := "C11.behaviour\x00" + sig
			g := groups[key]
			if g == nil {
				g = &violGroup{Inv: "C11.behaviour", Sig: sig, Detail: detail + "\n  program " + t.p.Name}
				groups[key] = g
				firstAt[key] = where{ti, ci}
			}
			g.Runs = append(g.Runs, ti)
		}
		if len(samples) < 4 && ti%(len(tasks)/4+1) == 1 {
			var cs []string
			for _, o := range obs[ti] {
				cs = append(cs, o.Cfg.String()+" -> "+o.behaviour()[:40])
			}
			samples = append(samples, map[string]any{"program": t.p.Name, "configurations": cs, "ledger_reference": ref.Ledger})
		}
	}
	if genRejected*5 > nGen && nGen > 0 {
		infra("%d of %d generated programs rejected by the unchanged compiler under the reference configuration", genRejected, nGen)
	}
	if refFail-genRejected > 0 {
		infra("%d corpus programs do not build under the reference configuration (toolchain trouble)", refFail-genRejected)
	}
	// a difference must be a function of the configuration, not of the run: re-observe the pair once; if the reference
	// itself is not repeatable the program is nondeterministic and is dropped (counted)
	known := loadKnown()
	keys := make([]string, 0, len(groups))
	for k := range groups {
		keys = append(keys, k)
	}
	sort.Strings(keys)
	newViol := 0
	os.MkdirAll(filepath.Join(verifDir, "replays"), 0o755)
	for _, k := range keys {
		g := groups[k]
		w := firstAt[k]
		t := tasks[w.t]
		refCfg, cfg := t.cfgs[0], t.cfgs[w.c]
		again := observeCfg(tc, t.p, refCfg, filepath.Join(workRoot, "c11-again"))
		if again.behaviour() != obs[w.t][0].behaviour() {
			nondet++
			logf("program %s is not repeatable under the reference configuration; dropped", t.p.Name)
			continue
		}
		if kf := known.match("C11", g.Inv, g.Sig); kf != nil {
			continue
		}
		newViol++
		mp := minimiseC11(tc, t.p, refCfg, cfg, g.Sig)
		rp := &c11Replay{Property: "C11", Engine: "heapsim-c11", Seed: seed, Inv: g.Inv, Sig: g.Sig, Detail: g.Detail, Name: mp.Name, Root: mp.Root, Files: mp.Files, Stdin: mp.Stdin, RefCfg: refCfg, Cfg: cfg, Policy: comparePolicy}
		if !c11Has(tc, mp, refCfg, cfg, g.Sig, 900000) {
			rp.Files = t.p.Files
			rp.Note = "minimised program did not reproduce; unminimised program reported"
		}
		path := filepath.Join(verifDir, "replays", fmt.Sprintf("C11-seed%d-%s.json", seed, shortHash(g.Sig+t.p.Name)))
		b, _ := json.MarshalIndent(rp, "", " ")
		os.WriteFile(path, b, 0o644)
		fmt.Printf("VIOLATION property=C11 replay=%s\n  %s %q in %d programs\n  %s\n", path, g.Inv, g.Sig, len(g.Runs), firstLines(g.Detail, 14))
	}
	for _, kf := range known.Findings {
		if kf.Property != "C11" || kf.Replay == "" {
			continue
		}
		if replayC11Stored(tc, filepath.Join(verifDir, kf.Replay)) {
			fmt.Printf("KNOWN-FINDING: property=C11 %s (reproducer %s still fails)\n", kf.What, kf.Replay)
		}
	}
	ev := &Evidence{PropertyID: "C11", Tier: tier, Seed: int64(seed), Level: "exploration", Violations: newViol}
	ev.Coverage = map[string]any{
		"evaluations":         nObs,
		"distinct_nontrivial": len(behaviours),
		"rule": "one evaluation = one program built by the real kddp under one configuration from {-O 0,1,2} x {list definitions linked in, linked as object} (x {modules linked, --module-linken=false} for single-module programs) and executed on the simulated heap (guard pages, quarantine, junk fill); " +
			"all configurations of a program must show the behaviour of the reference (-O 0, linked, linked). distinct_nontrivial = distinct (program, exit status, error class, stdout hash) observations",
		"samples":                    samples,
		"programs":                   len(tasks),
		"generated_programs":         nGen,
		"generated_rejected":         genRejected,
		"configurations_fired":       cfgFired,
		"nondeterministic_dropped":   nondet,
		"runs_per_hour":              perHour(nObs, wall),
		"seeds_per_hour":             perHour(1, time.Since(startT)),
		"simulated_time_s":           0,
		"simulated_time_note":        "workload programs read no clock; the swept dimension is the build configuration",
		"event_log_sha256":           hex.EncodeToString(evHash.Sum(nil)),
		"violation_groups":           len(groups),
		"components_real":            []string{"kddp incl. LLVM optimisation pipeline and both linking modes", "gcc/ld", "runtime and stdlib C sources", "Duden"},
		"components_simulated":       []string{"libc realloc/free below ddp_reallocate (simheap, one fixed strict policy for all configurations of a program)", "setlocale fallback"},
		"module_link_false_coverage": "--module-linken=false is exercised for single-module generated programs only (the CLI cannot build imported modules as separate objects)",
		"exhaustive":                 false,
	}
	ev.Assumptions = []string{
		"programs reading clocks, randomness or process ids are excluded by a repeatability probe of the reference configuration",
		"the construct of the recorded -O 2 finding (value + Referenz alias) is not generated here; it is covered by C05's scoped reproducer",
	}
	writeEvidence(ev)
	logf("C11 done: %d programs, %d builds, %d behaviours, %d violation groups (%d new)", len(tasks), nObs, len(behaviours), len(groups), newViol)
	if newViol > 0 {
		return 1
	}
	return 0
}

func replayC11Stored(tc *Toolchain, path string) bool {
	b, err := os.ReadFile(path)
	if err != nil {
		infra("cannot read %s: %v", path, err)
	}
	var rp c11Replay
	if err := json.Unmarshal(b, &rp); err != nil {
		infra("replay file %s does not parse: %v", path, err)
	}
	p := &HProg{Name: rp.Name, Root: rp.Root, Files: rp.Files, Stdin: rp.Stdin}
	return c11Has(tc, p, rp.RefCfg, rp.Cfg, rp.Sig, nextReplayIdx())
}
