//go:build !verifsim

package main

import "ddpsim/fwproto"

const orderBuild = false

func orderBegin(spec *fwproto.OrderSpec) {}
func orderEnd(call *fwproto.Call)        {}
