#!/bin/bash
# usage: tools/thorough.sh <Cxx>...   run the thorough tier of each property, one after the other; one summary line each
cd "$(dirname "$0")/.."
for p in "$@"; do
  t0=$(date +%s)
  out=$(./check $p thorough 2>&1); rc=$?
  echo "$p thorough rc=$rc $(( $(date +%s)-t0 ))s  $(echo "$out" | grep -a -c '^VIOLATION') violations"
  echo "$out" | grep -a -A4 '^VIOLATION\|^KNOWN-FINDING\| done\|harness trouble\|no heap report' | cut -c1-400
done
