package main

import (
	"bufio"
	"bytes"
	"encoding/json"
	"fmt"
	"io"
	"os"
	"os/exec"
	"path/filepath"
	"sort"
	"strings"
	"sync"
	"sync/atomic"
	"time"

	"ddpsim/fwproto"
)

// Pool runs frontend jobs in sacrificial worker processes.  Results come back indexed by
// job position, so worker count and completion order never influence anything downstream.
type Pool struct {
	Bin      string
	Env      []string
	Workers  int
	WorkRoot string        // each worker gets WorkRoot/w<i>
	Stage1   time.Duration // wall time without END after which a run becomes a watchdog candidate
	ASLimit  int           // RLIMIT_AS in MiB for workers (0 = none)

	Restarts   atomic.Int64
	Candidates atomic.Int64
}

type worker struct {
	p      *Pool
	idx    int
	cmd    *exec.Cmd
	in     io.WriteCloser
	out    *bufio.Reader
	errLog string
	dir    string
}

func (p *Pool) startWorker(idx int, extraEnv ...string) (*worker, error) {
	w := &worker{p: p, idx: idx}
	w.dir = filepath.Join(p.WorkRoot, fmt.Sprintf("w%d", idx))
	os.MkdirAll(w.dir, 0o755)
	w.errLog = filepath.Join(p.WorkRoot, fmt.Sprintf("w%d.stderr", idx))
	ef, err := os.Create(w.errLog)
	if err != nil {
		return nil, err
	}
	cmd := exec.Command(p.Bin)
	cmd.Env = append(append(os.Environ(), p.Env...), "DDPSIM_WORK="+w.dir, "GOMAXPROCS=1", "GOTRACEBACK=all")
	if p.ASLimit > 0 {
		cmd.Env = append(cmd.Env, fmt.Sprintf("DDPSIM_AS_LIMIT_MB=%d", p.ASLimit))
	}
	cmd.Env = append(cmd.Env, extraEnv...)
	cmd.Stderr = ef
	in, err := cmd.StdinPipe()
	if err != nil {
		return nil, err
	}
	out, err := cmd.StdoutPipe()
	if err != nil {
		return nil, err
	}
	if err := cmd.Start(); err != nil {
		return nil, err
	}
	ef.Close()
	w.cmd, w.in, w.out = cmd, in, bufio.NewReaderSize(out, 1<<20)
	return w, nil
}

func (w *worker) stop() {
	if w == nil || w.cmd == nil {
		return
	}
	w.in.Close()
	done := make(chan struct{})
	go func() { w.cmd.Wait(); close(done) }()
	select {
	case <-done:
	case <-time.After(2 * time.Second):
		w.cmd.Process.Kill()
		<-done
	}
	w.cmd = nil
}

func (w *worker) kill() {
	if w.cmd != nil {
		w.cmd.Process.Kill()
		w.cmd.Wait()
		w.cmd = nil
	}
}

// classifyDeath turns the stderr of a dead worker into (headline, signature).
func classifyDeath(stderr string) (string, string) {
	head := ""
	lines := strings.Split(stderr, "\n")
	start := 0
	for i, l := range lines {
		if strings.HasPrefix(l, "cpu limit: ") {
			// the frontend was still running at the CPU-time limit.  Two stack samples were taken three CPU-seconds
			// apart; the frames they share (from the entry point inwards) end at the loop that does not terminate
			stackOf := func(ls []string) []string {
				var fns []string
				started := false
				for _, fl := range ls {
					fl = strings.TrimSpace(fl)
					if strings.HasPrefix(fl, "goroutine ") {
						if started && len(fns) > 0 {
							break
						}
						started = true
						continue
					}
					if !strings.HasPrefix(fl, "github.com/DDP-Projekt/Kompilierer/") {
						continue
					}
					fn := strings.TrimPrefix(fl, "github.com/DDP-Projekt/Kompilierer/")
					if k := strings.LastIndex(fn, "("); k > 0 {
						fn = fn[:k]
					}
					if k := strings.LastIndex(fn, "/"); k >= 0 {
						fn = fn[k+1:]
					}
					fns = append(fns, fn)
				}
				// outermost first
				for a, z := 0, len(fns)-1; a < z; a, z = a+1, z-1 {
					fns[a], fns[z] = fns[z], fns[a]
				}
				return fns
			}
			common := stackOf(lines[i:])
			for k := 0; k < i; k++ {
				if strings.HasPrefix(lines[k], "cpu sample:") {
					e := k + 1
					for e < i && !strings.HasPrefix(lines[e], "cpu sample:") {
						e++
					}
					smp := stackOf(lines[k:e])
					n := 0
					for n < len(smp) && n < len(common) && smp[n] == common[n] {
						n++
					}
					common = common[:n]
				}
			}
			if len(common) > 3 {
				common = common[len(common)-3:]
			}
			return l, "hang|" + strings.Join(common, ">")
		}
		if strings.HasPrefix(l, "fatal error: ") || strings.HasPrefix(l, "panic: ") || strings.HasPrefix(l, "runtime: goroutine stack exceeds") {
			if strings.HasPrefix(l, "runtime: goroutine stack exceeds") {
				head = "fatal error: stack overflow"
			} else {
				head = l
			}
			start = i
			break
		}
	}
	if head == "" {
		if strings.TrimSpace(stderr) == "" {
			return "killed without message (signal)", "killed"
		}
		head = strings.TrimSpace(lines[0])
	}
	if len(head) > 200 {
		head = head[:200]
	}
	// collect repo function names of the first goroutine stack
	count := map[string]int{}
	var order []string
	for _, l := range lines[start:] {
		l = strings.TrimSpace(l)
		if strings.HasPrefix(l, "goroutine ") && len(order) > 0 {
			break
		}
		if !strings.HasPrefix(l, "github.com/DDP-Projekt/Kompilierer/") {
			continue
		}
		fn := strings.TrimPrefix(l, "github.com/DDP-Projekt/Kompilierer/")
		if i := strings.LastIndex(fn, "("); i > 0 {
			fn = fn[:i]
		}
		if i := strings.LastIndex(fn, "/"); i >= 0 {
			fn = fn[i+1:]
		}
		if count[fn] == 0 {
			order = append(order, fn)
		}
		count[fn]++
	}
	var fns []string
	if strings.Contains(head, "stack overflow") {
		// a recursion cycle: its members are the functions that occur more than once in the
		// printed frames; where the stack happened to run out (the leaf calls) does not matter
		for _, fn := range order {
			if count[fn] >= 2 {
				fns = append(fns, fn)
			}
		}
		sort.Strings(fns)
		return head, head + "|cycle:" + strings.Join(fns, "<")
	}
	fns = order
	if len(fns) > 4 {
		fns = fns[:4]
	}
	return head, head + "|" + strings.Join(fns, "<")
}

// Run executes all jobs; results[i] belongs to jobs[i].
func (p *Pool) Run(jobs []fwproto.Job, progress func(done int)) ([]fwproto.Result, error) {
	results := make([]fwproto.Result, len(jobs))
	var next atomic.Int64
	var done atomic.Int64
	var wg sync.WaitGroup
	var firstErr error
	var errMu sync.Mutex
	n := p.Workers
	if n > len(jobs) {
		n = len(jobs)
	}
	if n < 1 {
		n = 1
	}
	for wi := 0; wi < n; wi++ {
		wg.Add(1)
		go func(wi int) {
			defer wg.Done()
			var w *worker
			defer func() { w.stop() }()
			for {
				i := int(next.Add(1)) - 1
				if i >= len(jobs) {
					return
				}
				if w == nil || w.cmd == nil {
					var err error
					w, err = p.startWorker(wi)
					if err != nil {
						errMu.Lock()
						if firstErr == nil {
							firstErr = err
						}
						errMu.Unlock()
						return
					}
				}
				results[i] = w.runOne(&jobs[i], p.Stage1)
				if results[i].Died != "" {
					p.Restarts.Add(1)
				}
				d := int(done.Add(1))
				if progress != nil && d%2000 == 0 {
					progress(d)
				}
			}
		}(wi)
	}
	wg.Wait()
	return results, firstErr
}

// runOne sends one job and waits for its END line; a dead or silent worker yields Died.
func (w *worker) runOne(job *fwproto.Job, limit time.Duration) fwproto.Result {
	b, _ := json.Marshal(job)
	b = append(b, '\n')
	type lineRes struct {
		res fwproto.Result
		err error
	}
	ch := make(chan lineRes, 1)
	go func() {
		if _, err := w.in.Write(b); err != nil {
			ch <- lineRes{err: err}
			return
		}
		for {
			line, err := w.out.ReadBytes('\n')
			if bytes.HasPrefix(line, []byte("END ")) {
				var r fwproto.Result
				if jerr := json.Unmarshal(line[4:], &r); jerr != nil {
					ch <- lineRes{err: jerr}
					return
				}
				ch <- lineRes{res: r}
				return
			}
			if err != nil {
				ch <- lineRes{err: err}
				return
			}
		}
	}()
	var timer <-chan time.Time
	if limit > 0 {
		timer = time.After(limit)
	}
	select {
	case lr := <-ch:
		if lr.err == nil {
			return lr.res
		}
		// the worker died
		if w.cmd != nil {
			w.cmd.Wait()
			w.cmd = nil
		}
		eb, _ := os.ReadFile(w.errLog)
		head, sig := classifyDeath(string(eb))
		os.RemoveAll(filepath.Join(w.dir, fmt.Sprintf("r%d", job.ID)))
		return fwproto.Result{ID: job.ID, Died: head, DiedFn: sig}
	case <-timer:
		w.kill()
		<-ch
		w.p.Candidates.Add(1)
		os.RemoveAll(filepath.Join(w.dir, fmt.Sprintf("r%d", job.ID)))
		return fwproto.Result{ID: job.ID, Died: "watchdog-candidate", DiedFn: "watchdog"}
	}
}

// RunIsolated runs one job alone in a fresh process under a CPU-time limit (stage 2 of the
// watchdog and replay).  cpuSeconds<=0 means no CPU limit.
func (p *Pool) RunIsolated(job *fwproto.Job, cpuSeconds int) fwproto.Result {
	var env []string
	if cpuSeconds > 0 {
		env = append(env, fmt.Sprintf("DDPSIM_CPU_LIMIT=%d", cpuSeconds))
	}
	w, err := p.startWorker(1000+int(p.Restarts.Add(1)), env...)
	if err != nil {
		return fwproto.Result{ID: job.ID, Infra: err.Error()}
	}
	defer w.stop()
	r := w.runOne(job, 0)
	if r.Died == "killed without message (signal)" && cpuSeconds > 0 {
		r.Died = fmt.Sprintf("did not return within %d CPU-seconds", cpuSeconds)
		r.DiedFn = "hang|"
	}
	return r
}
