package main

import (
	"bytes"
	"crypto/sha256"
	"encoding/hex"
	"encoding/json"
	"fmt"
	"os"
	"path/filepath"
	"sort"
	"strings"
	"sync"
	"time"

	"ddpsim/fwproto"
	"ddpsim/prng"
	"ddpsim/simdisk"
)

// ---------------------------------------------------------------------------------------------
// srcsim: the simulated source disk.  One set of runs serves C03 (totality) and C07 (faithful
// failure reporting); each check reports only its own invariants.
// ---------------------------------------------------------------------------------------------

type srcMeta struct {
	Class string // clean | trunc | block | multi | object | session | genmod
	Prog  string
	Kinds []string
}

type srcPlan struct {
	jobs []fwproto.Job
	meta []srcMeta
}

func (pl *srcPlan) add(j fwproto.Job, m srcMeta) {
	j.ID = len(pl.jobs)
	pl.jobs = append(pl.jobs, j)
	pl.meta = append(pl.meta, m)
}

func baseJob(p *Prog) fwproto.Job {
	return fwproto.Job{Base: p.Base, Only: p.Only, Root: p.Root}
}

// interesting offsets of a source text: around string/comment/paren/colon/period boundaries,
// inside multi-byte sequences, start and end.
func interestingOffsets(src []byte) []int {
	var o []int
	for i, c := range src {
		switch c {
		case '"', '[', ']', '(', ')', ':', '.', ',', '<', '>', '\n':
			o = append(o, i, i+1)
		}
		if c >= 0x80 && c < 0xC0 { // continuation byte: cutting here splits a code point
			o = append(o, i)
		}
	}
	return o
}

func seededContentFault(r *prng.R, file string, src []byte, corpus []Prog) (simdisk.Fault, string) {
	words := len(simdisk.Words(src)) - 1
	if words < 1 {
		words = 1
	}
	kinds := []string{"short_read", "lost_block", "dup_block", "swap_blocks", "zero_block", "flip", "torn_write", "splice", "crlf", "bom", "graft", "graft", "wrap", "wrap"}
	nLines := bytes.Count(src, []byte("\n")) + 1
	k := prng.Pick(r, kinds)
	f := simdisk.Fault{Kind: k, File: file}
	alt := ""
	switch k {
	case "short_read":
		f.Off = r.Intn(len(src) + 1)
	case "lost_block", "dup_block", "zero_block":
		f.Off = r.Intn(words)
		f.Len = r.Range(1, 3)
	case "swap_blocks":
		f.Off = r.Intn(words)
		if r.Chance(0.6) {
			f.Off2 = f.Off + r.Range(1, 3)
		} else {
			f.Off2 = r.Intn(words)
		}
		f.Len = r.Range(1, 2)
	case "flip":
		f.Off = r.Intn(len(src) + 1)
		f.Mask = 1 << r.Intn(8)
	case "torn_write":
		f.Seed = r.Uint64()
		f.Off = r.Intn(len(src) + 1)
	case "splice":
		f.Off = r.Intn(len(src) + 1)
		a := &corpus[r.Intn(len(corpus))]
		alt = filepath.Join(a.Base, a.Root)
		f.Off2 = r.Intn(len(a.Src) + 1)
	case "graft":
		f.Off = r.Intn(nLines + 1)
		a := &corpus[r.Intn(len(corpus))]
		alt = filepath.Join(a.Base, a.Root)
		f.Off2 = r.Intn(bytes.Count(a.Src, []byte("\n")) + 1)
		f.Len = r.Range(1, 4)
	case "wrap":
		f.Off = r.Intn(nLines)
		f.Len = r.Intn(len(simdisk.WrapHeaders))
	}
	return f, alt
}

func planSrcsim(tier string, corpus []Prog) *srcPlan {
	pl := &srcPlan{}
	thorough := tier == "thorough"
	// A. clean parses, as kddp calls the parser (Source given) and as the language server does
	for i := range corpus {
		p := &corpus[i]
		j := baseJob(p)
		j.Source = true
		j.Annot = true
		pl.add(j, srcMeta{Class: "clean", Prog: p.Name})
		pl.add(baseJob(p), srcMeta{Class: "clean", Prog: p.Name})
	}
	// B. short reads
	for i := range corpus {
		p := &corpus[i]
		var offs []int
		if thorough {
			for k := 0; k <= len(p.Src); k++ {
				offs = append(offs, k)
			}
		} else {
			r := prng.Stream(seed, "srcsim", "trunc", p.Name)
			set := map[int]bool{0: true, len(p.Src): true}
			if len(p.Src) > 0 {
				set[len(p.Src)-1] = true
			}
			io := interestingOffsets(p.Src)
			for n := 0; n < 60 && len(io) > 0; n++ {
				set[io[r.Intn(len(io))]] = true
			}
			for n := 0; n < 40; n++ {
				set[r.Intn(len(p.Src)+1)] = true
			}
			for k := range set {
				if k <= len(p.Src) {
					offs = append(offs, k)
				}
			}
			sort.Ints(offs)
		}
		for _, k := range offs {
			j := baseJob(p)
			j.Faults = []simdisk.Fault{{Kind: "short_read", File: p.Root, Off: k}}
			pl.add(j, srcMeta{Class: "trunc", Prog: p.Name, Kinds: []string{"short_read"}})
		}
	}
	// C. single block faults
	for i := range corpus {
		p := &corpus[i]
		words := len(simdisk.Words(p.Src)) - 1
		var fs []simdisk.Fault
		if thorough {
			for w := 0; w < words; w++ {
				fs = append(fs,
					simdisk.Fault{Kind: "lost_block", File: p.Root, Off: w, Len: 1},
					simdisk.Fault{Kind: "lost_block", File: p.Root, Off: w, Len: 2},
					simdisk.Fault{Kind: "dup_block", File: p.Root, Off: w, Len: 1},
					simdisk.Fault{Kind: "dup_block", File: p.Root, Off: w, Len: 2},
					simdisk.Fault{Kind: "swap_blocks", File: p.Root, Off: w, Off2: w + 1, Len: 1},
					simdisk.Fault{Kind: "zero_block", File: p.Root, Off: w, Len: 1},
				)
			}
			offs := simdisk.Words(p.Src)
			for _, o := range offs[:len(offs)-1] {
				fs = append(fs, simdisk.Fault{Kind: "flip", File: p.Root, Off: o, Mask: 0x20})
			}
			for l, n := 0, bytes.Count(p.Src, []byte("\n"))+1; l < n; l++ {
				for h := range simdisk.WrapHeaders {
					fs = append(fs, simdisk.Fault{Kind: "wrap", File: p.Root, Off: l, Len: h})
				}
			}
		} else {
			r := prng.Stream(seed, "srcsim", "block", p.Name)
			for n := 0; n < 50; n++ {
				k := prng.Pick(r, []string{"lost_block", "dup_block", "swap_blocks", "zero_block", "flip", "wrap"})
				f := simdisk.Fault{Kind: k, File: p.Root, Off: r.Intn(max(words, 1)), Len: r.Range(1, 3)}
				if k == "swap_blocks" {
					f.Off2 = f.Off + r.Range(1, 3)
					f.Len = 1
				}
				if k == "flip" {
					f.Off = r.Intn(len(p.Src) + 1)
					f.Mask = 1 << r.Intn(8)
				}
				if k == "wrap" {
					f.Off = r.Intn(bytes.Count(p.Src, []byte("\n")) + 1)
					f.Len = r.Intn(len(simdisk.WrapHeaders))
				}
				fs = append(fs, f)
			}
		}
		for _, f := range fs {
			j := baseJob(p)
			j.Faults = []simdisk.Fault{f}
			pl.add(j, srcMeta{Class: "block", Prog: p.Name, Kinds: []string{f.Kind}})
		}
	}
	// C2. a placeholder statement "..." (accepted with a warning) typed into a block of the root file or of a file it
	// imports: step 0 parses the tree as it is, step 1 the tree with the placeholder; if the first delivers no error the
	// second must not either (worker side, Job.WarnOnly)
	for i := range corpus {
		p := &corpus[i]
		r := prng.Stream(seed, "srcsim", "todo", p.Name)
		for _, file := range p.Only {
			if !strings.HasSuffix(file, ".ddp") {
				continue
			}
			src := p.Src
			if file != p.Root {
				b, err := os.ReadFile(filepath.Join(p.Base, file))
				if err != nil {
					continue
				}
				src = b
			}
			n := len(simdisk.TodoLines(src))
			var picks []int
			if thorough || os.Getenv("VERIF_TODO_ALL") != "" {
				for k := 0; k < n; k++ {
					picks = append(picks, k)
				}
			} else {
				want := 4
				if file != p.Root {
					want = 1
				}
				for k := 0; k < want && k < n; k++ {
					picks = append(picks, r.Intn(n))
				}
			}
			for _, k := range picks {
				j := baseJob(p)
				j.Source = true
				j.WarnOnly = true
				j.Steps = []fwproto.Step{{Fresh: true}, {Fresh: true, Faults: []simdisk.Fault{{Kind: "todo", File: file, Off: k}}}}
				pl.add(j, srcMeta{Class: "todo", Prog: p.Name, Kinds: []string{"todo"}})
			}
		}
	}
	// D. seeded multi-fault runs (1..3 faults, all content kinds, incl. faults on imported files)
	nMulti := 40
	if thorough {
		nMulti = 1500
	}
	for i := range corpus {
		p := &corpus[i]
		r := prng.Stream(seed, "srcsim", "multi", p.Name)
		var ddpFiles []string
		for _, f := range p.Only {
			if strings.HasSuffix(f, ".ddp") {
				ddpFiles = append(ddpFiles, f)
			}
		}
		for n := 0; n < nMulti; n++ {
			j := baseJob(p)
			nf := r.Range(1, 3)
			var kinds []string
			for q := 0; q < nf; q++ {
				file := p.Root
				if len(ddpFiles) > 1 && r.Chance(0.3) {
					file = prng.Pick(r, ddpFiles)
				}
				src, _ := os.ReadFile(filepath.Join(p.Base, file))
				f, alt := seededContentFault(r, file, src, corpus)
				if alt != "" {
					if j.Alt != "" && j.Alt != alt {
						continue // one alt file per job
					}
					j.Alt = alt
				}
				j.Faults = append(j.Faults, f)
				kinds = append(kinds, f.Kind)
			}
			j.Source = r.Bool()
			pl.add(j, srcMeta{Class: "multi", Prog: p.Name, Kinds: kinds})
		}
	}
	// E. import-object faults: every imported file of every program x every object kind
	for i := range corpus {
		p := &corpus[i]
		for _, f := range p.Only {
			if f == p.Root || !strings.HasSuffix(f, ".ddp") {
				continue
			}
			for _, k := range append(append([]string{}, simdisk.ObjectKinds...), "empty", "bom", "crlf") {
				j := baseJob(p)
				j.Faults = []simdisk.Fault{{Kind: k, File: f}}
				pl.add(j, srcMeta{Class: "object", Prog: p.Name, Kinds: []string{k}})
			}
		}
		// the root itself replaced by an object (language-server mode: FileName only)
		for _, k := range simdisk.ObjectKinds {
			j := baseJob(p)
			j.Faults = []simdisk.Fault{{Kind: k, File: p.Root}}
			pl.add(j, srcMeta{Class: "object", Prog: p.Name, Kinds: []string{k}})
		}
	}
	// F. generated module sets: cycles, directory imports, path spellings
	nGen := 400
	if thorough {
		nGen = 20000
	}
	for n := 0; n < nGen; n++ {
		r := prng.Stream(seed, "srcsim", "genmod", n)
		ms := genModuleSet(r, genModOpts{Faulty: true})
		j := fwproto.Job{Tree: ms.Tree, Root: ms.Root, Source: r.Bool()}
		pl.add(j, srcMeta{Class: "genmod", Prog: fmt.Sprintf("genmod#%d", n), Kinds: ms.Kinds})
	}
	// G. sessions: a language-server like sequence of parses sharing one module cache while the disk changes
	nSess := 6
	if thorough {
		nSess = 120
	}
	for i := range corpus {
		p := &corpus[i]
		r := prng.Stream(seed, "srcsim", "session", p.Name)
		var ddpFiles []string
		for _, f := range p.Only {
			if strings.HasSuffix(f, ".ddp") {
				ddpFiles = append(ddpFiles, f)
			}
		}
		for n := 0; n < nSess; n++ {
			j := baseJob(p)
			steps := r.Range(2, 6)
			kinds := []string{"stale_cache"}
			j.Steps = append(j.Steps, fwproto.Step{Fresh: true})
			for s := 1; s < steps; s++ {
				st := fwproto.Step{}
				file := prng.Pick(r, ddpFiles)
				src, _ := os.ReadFile(filepath.Join(p.Base, file))
				if r.Chance(0.25) {
					k := prng.Pick(r, simdisk.ObjectKinds)
					st.Faults = []simdisk.Fault{{Kind: k, File: file}}
					kinds = append(kinds, k)
				} else {
					f, alt := seededContentFault(r, file, src, corpus)
					if alt != "" {
						if j.Alt != "" && j.Alt != alt {
							f = simdisk.Fault{Kind: "short_read", File: file, Off: r.Intn(len(src) + 1)}
						} else {
							j.Alt = alt
						}
					}
					st.Faults = []simdisk.Fault{f}
					kinds = append(kinds, f.Kind)
				}
				if r.Chance(0.2) && len(ddpFiles) > 1 {
					st.Root = prng.Pick(r, ddpFiles) // the editor switches to another file of the project
				}
				j.Steps = append(j.Steps, st)
			}
			pl.add(j, srcMeta{Class: "session", Prog: p.Name, Kinds: kinds})
		}
	}
	return pl
}

// a violation group: all runs that failed the same invariant with the same signature
type violGroup struct {
	Inv, Sig string
	Runs     []int
	Detail   string
}

type replayFile struct {
	Property string       `json:"property"`
	Engine   string       `json:"engine"`
	Seed     uint64       `json:"seed"`
	Run      int          `json:"run"`
	Inv      string       `json:"inv"`
	Sig      string       `json:"sig"`
	Detail   string       `json:"detail"`
	Class    string       `json:"class,omitempty"`
	Faults   any          `json:"fault_trace,omitempty"`
	Job      fwproto.Job  `json:"job"`
	Note     string       `json:"note,omitempty"`
	Extra    any          `json:"extra,omitempty"`
	Orig     *fwproto.Job `json:"unminimised_job,omitempty"`
}

func resultViols(r *fwproto.Result) []fwproto.Viol {
	var vs []fwproto.Viol
	if r.Died != "" && r.DiedFn != "watchdog" {
		inv := "C03.fatal"
		if strings.HasPrefix(r.DiedFn, "hang|") {
			inv = "C03.hang"
		}
		vs = append(vs, fwproto.Viol{Inv: inv, Sig: r.DiedFn, Detail: r.Died})
	}
	for _, c := range r.Calls {
		vs = append(vs, c.Viol...)
	}
	return vs
}

func eventLine(id int, m *srcMeta, j *fwproto.Job, r *fwproto.Result) string {
	type ev struct {
		ID     int      `json:"id"`
		Class  string   `json:"class"`
		Prog   string   `json:"prog"`
		Faults []string `json:"faults,omitempty"`
		Calls  []string `json:"calls"`
		Died   string   `json:"died,omitempty"`
	}
	e := ev{ID: id, Class: m.Class, Prog: m.Prog, Died: r.DiedFn}
	for _, f := range j.Faults {
		e.Faults = append(e.Faults, f.String())
	}
	for _, c := range r.Calls {
		h := sha256.New()
		for _, d := range c.Diags {
			fmt.Fprintf(h, "%d|%d|%s|%v|%s\n", d.Code, d.Level, d.File, d.Range, d.Msg)
		}
		var vs []string
		for _, v := range c.Viol {
			vs = append(vs, v.Inv+":"+v.Sig)
		}
		e.Calls = append(e.Calls, fmt.Sprintf("err=%t nil=%t faulty=%t diags=%d:%s mods=%d viol=%v",
			c.Err != "", c.NilMod, c.Faulty, len(c.Diags), hex.EncodeToString(h.Sum(nil))[:12], len(c.Modules), vs))
	}
	b, _ := json.Marshal(e)
	return string(b)
}

func checkSrcsim(prop, tier string) int {
	bin, err := buildFrontw(false)
	if err != nil {
		infra("%v", err)
	}
	corpus := Corpus()
	if len(corpus) < 100 {
		infra("corpus unusable: only %d programs found under %s", len(corpus), repoRoot())
	}
	plan := planSrcsim(tier, corpus)
	logf("srcsim %s/%s seed=%d: %d runs planned over %d corpus files, %d workers", prop, tier, seed, len(plan.jobs), len(corpus), nWorkers)
	pool := &Pool{Bin: bin, Env: []string{"DDPPATH=" + filepath.Join(repoRoot(), "lib/stdlib")}, Workers: nWorkers,
		WorkRoot: workRoot, Stage1: 30 * time.Second, ASLimit: 8192}
	t0 := time.Now()
	results, err := pool.Run(plan.jobs, func(d int) {
		if d%20000 == 0 {
			logf("  %d/%d runs", d, len(plan.jobs))
		}
	})
	if err != nil {
		infra("worker pool: %v", err)
	}
	simWall := time.Since(t0)

	// stage 2 of the watchdog: candidates are re-run alone under a CPU-time limit
	unconfirmed := 0
	{
		var cands []int
		for i := range results {
			if results[i].DiedFn == "watchdog" {
				cands = append(cands, i)
			}
		}
		// at most 48 candidates are confirmed (a defect that hangs shows up in far fewer distinct ways); the rest
		// stays "watchdog" and is listed in the evidence, never reported
		if len(cands) > 48 {
			cands = cands[:48]
		}
		var wg sync.WaitGroup
		var mu sync.Mutex
		sem := make(chan struct{}, max(nWorkers/2, 1))
		for _, i := range cands {
			wg.Add(1)
			go func(i int) {
				defer wg.Done()
				sem <- struct{}{}
				defer func() { <-sem }()
				r2 := pool.RunIsolated(&plan.jobs[i], 120)
				mu.Lock()
				if r2.Died == "" {
					unconfirmed++
				}
				results[i] = r2
				mu.Unlock()
			}(i)
		}
		wg.Wait()
	}

	// aggregate
	evLog, _ := os.Create(filepath.Join(workRoot, "events.jsonl"))
	evHash := sha256.New()
	groups := map[string]*violGroup{}
	fired := map[string]int{}
	notFired := map[string]int{}
	classes := map[string]int{}
	states := map[string]bool{}
	infraN := 0
	calls := 0
	var samples []any
	for i := range results {
		r := &results[i]
		m := &plan.meta[i]
		if r.Infra != "" {
			infraN++
			if infraN <= 3 {
				logf("infra trouble in run %d: %s", i, r.Infra)
			}
			continue
		}
		line := eventLine(i, m, &plan.jobs[i], r)
		fmt.Fprintln(evLog, line)
		evHash.Write([]byte(line + "\n"))
		classes[m.Class]++
		// a fault counts as fired only if the compiler actually reached the faulted file: the root, a module it
		// produced / attempted (module cache key) or a file named in a diagnostic
		touched := map[string]bool{}
		for _, c := range r.Calls {
			for _, mname := range c.Modules {
				touched[strings.TrimSuffix(strings.TrimSuffix(strings.TrimPrefix(mname, "$R/"), "=nil"), "=faulty")] = true
			}
			for _, d := range c.Diags {
				touched[strings.TrimPrefix(d.File, "$R/")] = true
			}
		}
		allFaults := append([]simdisk.Fault{}, plan.jobs[i].Faults...)
		for _, st := range plan.jobs[i].Steps {
			allFaults = append(allFaults, st.Faults...)
		}
		if len(allFaults) == 0 {
			for _, k := range m.Kinds {
				fired[k]++
			}
		}
		for _, f := range allFaults {
			if f.File == plan.jobs[i].Root || touched[f.File] || r.Died != "" {
				fired[f.Kind]++
			} else {
				notFired[f.Kind]++
			}
		}
		for _, c := range r.Calls {
			calls++
			var codes []string
			for _, d := range c.Diags {
				codes = append(codes, fmt.Sprint(d.Code))
			}
			states[fmt.Sprintf("%t|%t|%s", c.Err != "", c.Faulty, strings.Join(codes, ","))] = true
		}
		if len(samples) < 6 && i%(len(results)/6+1) == 7 {
			samples = append(samples, map[string]any{"run": i, "class": m.Class, "prog": m.Prog, "faults": plan.jobs[i].Faults, "event": json.RawMessage(line)})
		}
		for _, v := range resultViols(r) {
			if !strings.HasPrefix(v.Inv, prop+".") {
				continue
			}
			key := v.Inv + "\x00" + v.Sig
			g := groups[key]
			if g == nil {
				g = &violGroup{Inv: v.Inv, Sig: v.Sig, Detail: v.Detail}
				groups[key] = g
			}
			g.Runs = append(g.Runs, i)
		}
	}
	evLog.Close()

	// C07 I4: the stock CLI on a sample of the same trees
	cliRuns := 0
	cliStats := map[string]int{}
	cliModeOf := map[int]cliMode{}
	if prop == "C07" {
		n := 240
		if tier == "thorough" {
			n = 4000
		}
		var cv []cliViol
		cv, cliRuns, cliStats = c07CLI(plan.jobs, results, n)
		sort.Slice(cv, func(a, b int) bool { return cv[a].job < cv[b].job })
		for _, v := range cv {
			cliModeOf[v.job] = v.mode
			key := "C07.I4\x00" + v.sig
			g := groups[key]
			if g == nil {
				g = &violGroup{Inv: "C07.I4", Sig: v.sig, Detail: v.detail}
				groups[key] = g
			}
			g.Runs = append(g.Runs, v.job)
		}
	}

	known := loadKnown()
	keys := make([]string, 0, len(groups))
	for k := range groups {
		keys = append(keys, k)
	}
	sort.Strings(keys)
	newViol := 0
	os.MkdirAll(filepath.Join(verifDir, "replays"), 0o755)
	knownHit := map[string]int{}
	for _, k := range keys {
		g := groups[k]
		if kf := known.match(prop, g.Inv, g.Sig); kf != nil {
			knownHit[kf.Inv+"|"+kf.Sig] += len(g.Runs)
			continue
		}
		newViol++
		run := g.Runs[0]
		var rp *replayFile
		if g.Inv == "C07.I4" {
			ex, _ := explicitJob(&plan.jobs[run])
			rp = &replayFile{Property: prop, Engine: "srcsim-cli", Seed: seed, Inv: g.Inv, Sig: g.Sig, Detail: g.Detail, Class: plan.meta[run].Class, Faults: plan.jobs[run].Faults, Extra: cliModeOf[run]}
			if ex != nil {
				rp.Job = *ex
			}
		} else {
			rp = minimiseSrc(pool, prop, &plan.jobs[run], g, plan.meta[run].Class)
		}
		rp.Run = run
		name := fmt.Sprintf("%s-%s-seed%d-run%d-%s.json", prop, sanitize(g.Inv), seed, run, shortHash(g.Sig))
		path := filepath.Join(verifDir, "replays", name)
		b, _ := json.MarshalIndent(rp, "", " ")
		os.WriteFile(path, b, 0o644)
		fmt.Printf("VIOLATION property=%s replay=%s\n", prop, path)
		fmt.Printf("  invariant %s signature %q in %d runs; first run %d (%s %s)\n  %s\n", g.Inv, g.Sig, len(g.Runs), run, plan.meta[run].Class, plan.meta[run].Prog, firstLines(g.Detail, 6))
	}
	// known findings: re-run the stored reproducer; print the line only if it still fails
	for _, kf := range known.Findings {
		if kf.Property != prop || kf.Replay == "" {
			continue
		}
		ok, _ := replayStored(pool, filepath.Join(verifDir, kf.Replay))
		if ok {
			fmt.Printf("KNOWN-FINDING: property=%s %s (reproducer %s still fails; %d runs of this sweep hit it)\n", prop, kf.What, kf.Replay, knownHit[kf.Inv+"|"+kf.Sig])
		}
	}

	ev := &Evidence{PropertyID: prop, Tier: tier, Seed: int64(seed), Level: "fault_enumeration", Violations: newViol}
	ev.Coverage = map[string]any{
		"evaluations":         calls,
		"distinct_nontrivial": len(states),
		"rule": "one evaluation = one parser.Parse call of the real frontend on a simulated disk (corpus program + delivery faults). " +
			"thorough tier enumerates every truncation offset and every single word-block fault of every corpus file; quick tier samples them from VERIF_SEED. " +
			"distinct_nontrivial = number of distinct (returned-error?, faulty flag, sequence of diagnostic codes) outcomes observed",
		"samples":                          samples,
		"exhaustive":                       false,
		"runs":                             len(results),
		"runs_by_class":                    classes,
		"fault_kinds_fired":                fired,
		"fault_kinds_configured_not_fired": notFired,
		"runs_per_hour":                    perHour(len(results), simWall),
		"seeds_per_hour":                   perHour(1, time.Since(startT)),
		"simulated_time_s":                 0,
		"simulated_time_note":              "nothing in the frontend reads a clock; there is no simulated time to advance",
		"event_log_sha256":                 hex.EncodeToString(evHash.Sum(nil)),
		"worker_deaths":                    pool.Restarts.Load(),
		"watchdog_candidates":              pool.Candidates.Load(),
		"watchdog_unconfirmed":             unconfirmed,
		"violation_groups":                 len(groups),
		"violation_groups_known":           len(groups) - newViol,
		"corpus_files":                     len(corpus),
		"components_real":                  []string{"src/scanner", "src/parser", "src/parser/resolver", "src/parser/typechecker", "src/ast/annotators", "src/ddperror (renderer)", "os.ReadFile / filepath.WalkDir on a real tmpfs tree"},
		"components_simulated":             []string{"the content and shape of the source tree (every byte written by the simulator)"},
		"single_fault_enumeration":         tier == "thorough",
		"kddp_cli_runs":                    cliRuns,
		"kddp_cli_outcomes":                cliStats,
	}
	ev.Assumptions = []string{
		"the space explored is the fault closure (<=3 faults) of the repository's 157 DDP files plus generated module sets, not all byte strings",
		"EIO/EACCES on reads are not produced (checks run as root; both take the same branch as ENOENT)",
		"hang verdicts need two stages: 30 s wall in the batch, then 120 CPU-seconds alone in a fresh process",
	}
	writeEvidence(ev)
	logf("srcsim %s done: %d runs, %d calls, %d outcome classes, %d violation groups (%d new), %d deaths", prop, len(results), calls, len(states), len(groups), newViol, pool.Restarts.Load())
	if infraN > 0 {
		infra("%d runs had harness trouble (results above are incomplete)", infraN)
	}
	if newViol > 0 {
		return 1
	}
	return 0
}

func sanitize(s string) string {
	return strings.Map(func(r rune) rune {
		if r == '.' || r == '-' || (r >= '0' && r <= '9') || (r >= 'a' && r <= 'z') || (r >= 'A' && r <= 'Z') {
			return r
		}
		return '_'
	}, s)
}

func firstLines(s string, n int) string {
	l := strings.Split(s, "\n")
	if len(l) > n {
		l = l[:n]
	}
	return strings.Join(l, "\n  ")
}

// hasViol re-runs job in a fresh process and reports whether the same invariant+signature fails.
func hasViol(pool *Pool, job *fwproto.Job, inv, sig string) bool {
	j := *job
	cpu := 0
	if inv == "C03.hang" {
		cpu = 120
	}
	r := pool.RunIsolated(&j, cpu)
	if os.Getenv("DDPSIM_DEBUG") != "" {
		b, _ := json.MarshalIndent(r, "", " ")
		fmt.Fprintln(os.Stderr, string(b))
	}
	for _, v := range resultViols(&r) {
		if v.Inv == inv && v.Sig == sig {
			return true
		}
	}
	return false
}

// explicitJob expands base+faults into a self-contained job (explicit tree).
func explicitJob(job *fwproto.Job) (*fwproto.Job, error) {
	j := *job
	if j.Tree == nil {
		t, err := simdisk.Load(j.Base)
		if err != nil {
			return nil, err
		}
		if j.Only != nil {
			nt := &simdisk.Tree{Files: map[string][]byte{}}
			for _, f := range j.Only {
				if c, ok := t.Files[f]; ok {
					nt.Files[f] = c
				}
			}
			t = nt
		}
		j.Tree = t
	}
	var alt []byte
	if j.Alt != "" {
		alt, _ = os.ReadFile(j.Alt)
	}
	for _, f := range j.Faults {
		j.Tree = simdisk.Apply(j.Tree, f, alt)
	}
	j.Faults = nil
	j.Base, j.Only = "", nil
	// step faults stay symbolic unless they use the alt file
	for i := range j.Steps {
		for _, f := range j.Steps[i].Faults {
			if f.Kind == "splice" && alt != nil {
				_ = f // alt stays referenced through j.Alt (absolute path inside /repo)
			}
		}
	}
	return &j, nil
}

// minimiseSrc shrinks a failing srcsim job while the same invariant and signature fail.
func minimiseSrc(pool *Pool, prop string, job *fwproto.Job, g *violGroup, class string) *replayFile {
	rp := &replayFile{Property: prop, Engine: "srcsim", Seed: seed, Inv: g.Inv, Sig: g.Sig, Detail: g.Detail, Class: class, Faults: job.Faults}
	deadline := time.Now().Add(60 * time.Second)
	if g.Inv == "C03.hang" {
		deadline = time.Now()
	}
	cur := *job
	try := func(j *fwproto.Job) bool {
		if time.Now().After(deadline) {
			return false
		}
		return hasViol(pool, j, g.Inv, g.Sig)
	}
	// 1. drop faults one at a time
	for i := 0; i < len(cur.Faults) && len(cur.Faults) > 1; {
		c := cur
		c.Faults = append(append([]simdisk.Fault{}, cur.Faults[:i]...), cur.Faults[i+1:]...)
		if try(&c) {
			cur = c
		} else {
			i++
		}
	}
	// drop session steps from the end / middle
	for i := len(cur.Steps) - 1; i >= 1 && len(cur.Steps) > 1; i-- {
		c := cur
		c.Steps = append(append([]fwproto.Step{}, cur.Steps[:i]...), cur.Steps[i+1:]...)
		if try(&c) {
			cur = c
		}
	}
	rp.Faults = map[string]any{"faults": cur.Faults, "steps": cur.Steps}
	ex, err := explicitJob(&cur)
	if err != nil {
		rp.Job = cur
		rp.Note = "could not expand tree: " + err.Error()
		return rp
	}
	orig := *ex
	// 2. drop files, then lines of the remaining files (only for single-call jobs: session faults are symbolic)
	if len(ex.Steps) <= 1 {
		for _, f := range ex.Tree.SortedFiles() {
			if f == ex.Root {
				continue
			}
			c := *ex
			c.Tree = ex.Tree.Clone()
			delete(c.Tree.Files, f)
			if try(&c) {
				ex = &c
			}
		}
		for _, f := range ex.Tree.SortedFiles() {
			if !strings.HasSuffix(f, ".ddp") {
				continue
			}
			content := ex.Tree.Files[f]
			chunks := splitLinesKeep(content)
			n := 2
			for len(chunks) >= 2 && time.Now().Before(deadline) {
				sz := (len(chunks) + n - 1) / n
				reduced := false
				for s := 0; s < len(chunks); s += sz {
					e := min(s+sz, len(chunks))
					cand := append(append([][]byte{}, chunks[:s]...), chunks[e:]...)
					c := *ex
					c.Tree = ex.Tree.Clone()
					c.Tree.Files[f] = joinBytes(cand)
					if try(&c) {
						ex = &c
						chunks = cand
						n = max(n-1, 2)
						reduced = true
						break
					}
				}
				if !reduced {
					if n >= len(chunks) {
						break
					}
					n = min(n*2, len(chunks))
				}
			}
		}
	}
	// confirm the minimised job in a fresh process; otherwise fall back to the unminimised one
	if hasViol(pool, ex, g.Inv, g.Sig) {
		rp.Job = *ex
	} else {
		rp.Job = orig
		rp.Note = "minimised job did not reproduce in a fresh process; unminimised job reported (harness note)"
	}
	return rp
}

func splitLinesKeep(b []byte) [][]byte {
	var out [][]byte
	for len(b) > 0 {
		i := strings.IndexByte(string(b), '\n')
		if i < 0 {
			out = append(out, b)
			break
		}
		out = append(out, b[:i+1])
		b = b[i+1:]
	}
	return out
}

func joinBytes(c [][]byte) []byte {
	var out []byte
	for _, x := range c {
		out = append(out, x...)
	}
	return out
}

// replayStored re-executes a replay file; returns whether the recorded invariant fails again.
func replayStored(pool *Pool, path string) (bool, *replayFile) {
	b, err := os.ReadFile(path)
	if err != nil {
		infra("cannot read replay file %s: %v", path, err)
	}
	var rp replayFile
	if err := json.Unmarshal(b, &rp); err != nil {
		infra("replay file %s does not parse: %v", path, err)
	}
	return hasViol(pool, &rp.Job, rp.Inv, rp.Sig), &rp
}
