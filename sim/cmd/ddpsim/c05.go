package main

import (
	"crypto/sha256"
	"encoding/hex"
	"encoding/json"
	"fmt"
	"os"
	"path/filepath"
	"regexp"
	"sort"
	"strings"
	"sync"
	"time"

	"ddpsim/prng"
)

// C05: every heap block released exactly once, true sizes, no access outside live blocks.

type heapViol struct {
	Inv    string
	Sig    string
	Detail string
	Job    int
	Run    int
}

var reDigits = regexp.MustCompile(`[0-9]+`)

// violText -> short class used in signatures (no sizes, block numbers or addresses)
func violClass(inv, text string) string {
	switch {
	case strings.Contains(text, "double free"):
		return "double-free"
	case strings.Contains(text, "resize after free"):
		return "resize-after-free"
	case strings.Contains(text, "not its start"):
		return "interior-pointer"
	case strings.Contains(text, "not a block obtained"):
		return "foreign-pointer"
	case strings.Contains(text, "caller stated"):
		return "wrong-size"
	case strings.Contains(text, "past the end of live"):
		return "past-end"
	case strings.Contains(text, "before the start of live"):
		return "before-start"
	case strings.Contains(text, "inside freed"):
		return "use-after-free"
	case strings.Contains(text, "never released"):
		return "leak"
	case strings.Contains(text, "write outside a live block"), strings.Contains(text, "write into released"):
		return "stray-write"
	}
	return reDigits.ReplaceAllString(text, "N")
}

// evalHeapRun applies L1..L5 + conservation to one execution.
func evalHeapRun(o *heapOutcome, k int, st func(uint64) string) []heapViol {
	r := o.Runs[k]
	res := r.Res
	var vs []heapViol
	if res.Report == nil {
		return nil // handled by the caller as harness trouble / timeout
	}
	for _, v := range res.Report.Viol {
		sym := normSym(r.PCSym)
		if v.Inv == "L3" {
			// identify the leak by the allocation sites of the leaked blocks
			seen := map[string]bool{}
			var sites []string
			for _, l := range res.Report.Live {
				s := normSym(st(l.PC))
				if !seen[s] {
					seen[s] = true
					sites = append(sites, s)
				}
			}
			sort.Strings(sites)
			sym = strings.Join(sites, ",")
		}
		vs = append(vs, heapViol{Inv: "C05." + v.Inv, Sig: fmt.Sprintf("%s|%s|%s", v.Inv, violClass(v.Inv, v.Text), sym),
			Detail: fmt.Sprintf("%s [%s] %s (pc in %s) — program %s, %s, policy %s seed %d", v.Inv, res.Report.Term, v.Text, sym, o.Job.Prog.Name, o.Job.Cfg, r.Policy, r.Policy.Seed)})
	}
	if res.Report.Refused > 0 && res.Report.MaxLive < 1<<24 {
		// L6: a request for more than 2 GiB while the program holds a few KiB: the size was read from memory the
		// program never initialised or that was corrupted (no workload program needs such a block)
		vs = append(vs, heapViol{Inv: "C05.L6", Sig: "L6|absurd-request", Detail: fmt.Sprintf("L6 [%s] ddp_reallocate was asked for %d bytes while at most %d bytes were ever live — a size taken from uninitialised or foreign memory; program %s, %s, policy %s seed %d",
			res.Report.Term, res.Report.RefSize, res.Report.MaxLive, o.Job.Prog.Name, o.Job.Cfg, r.Policy, r.Policy.Seed)})
	}
	if res.Report.Term == "normal" && len(res.Report.Viol) == 0 && res.Report.SumNew != res.Report.SumOld {
		vs = append(vs, heapViol{Inv: "C05.conservation", Sig: "conservation", Detail: fmt.Sprintf("sum of new sizes %d != sum of old sizes %d at normal exit", res.Report.SumNew, res.Report.SumOld)})
	}
	return vs
}

type heapReplay struct {
	Property string            `json:"property"`
	Engine   string            `json:"engine"`
	Seed     uint64            `json:"seed"`
	Inv      string            `json:"inv"`
	Sig      string            `json:"sig"`
	Detail   string            `json:"detail"`
	Name     string            `json:"program"`
	Root     string            `json:"root"`
	Files    map[string][]byte `json:"files"`
	Stdin    []byte            `json:"stdin,omitempty"`
	Cfg      BuildCfg          `json:"config"`
	Policy   HeapPolicy        `json:"heap_policy"`
	// C11: the configuration compared against
	RefCfg *BuildCfg `json:"reference_config,omitempty"`
	Note   string    `json:"note,omitempty"`
}

// heapHas re-builds and re-runs one program and reports whether the same violation appears.
func heapHas(tc *Toolchain, p *HProg, cfg BuildCfg, pol HeapPolicy, inv, sig string, idx int) bool {
	j := &heapJob{Prog: p, Cfg: cfg, Policies: []HeapPolicy{pol}}
	o := runHeapJob(tc, j, tc.Kddp, filepath.Join(workRoot, fmt.Sprintf("hm%d", idx)))
	if o.BuildRC != 0 || o.BuildErr != "" || len(o.Runs) == 0 {
		return false
	}
	// symbols were resolved by runHeapJob for the violating pc; leaks need the symtab again
	for _, v := range evalHeapRunWithExe(tc, o) {
		if os.Getenv("DDPSIM_DEBUG") != "" {
			logf("heapHas: %s %q %s", v.Inv, v.Sig, v.Detail)
		}
		if v.Inv == inv && v.Sig == sig {
			return true
		}
	}
	return false
}

// evalHeapRunWithExe evaluates run 0 of an outcome; leak sites were resolved while the exe existed.
func evalHeapRunWithExe(tc *Toolchain, o *heapOutcome) []heapViol {
	return evalHeapRun(o, 0, func(pc uint64) string { return o.Runs[0].LiveSyms[pc] })
}

func minimiseHeap(tc *Toolchain, p *HProg, cfg BuildCfg, pol HeapPolicy, inv, sig string) *HProg {
	deadline := time.Now().Add(150 * time.Second)
	clone := func(c *HProg) *HProg {
		d := &HProg{Name: c.Name, Root: c.Root, Files: map[string][]byte{}, Stdin: c.Stdin, Args: c.Args}
		for k, v := range c.Files {
			d.Files[k] = v
		}
		return d
	}
	cur := clone(p)
	tries := 0
	// firstOK evaluates the candidates in parallel and returns the index of the first (lowest) that still fails the same way
	firstOK := func(cands []*HProg) int {
		if time.Now().After(deadline) || len(cands) == 0 {
			return -1
		}
		ok := make([]bool, len(cands))
		var wg sync.WaitGroup
		sem := make(chan struct{}, nWorkers)
		for i := range cands {
			wg.Add(1)
			tries++
			go func(i, id int) {
				defer wg.Done()
				sem <- struct{}{}
				defer func() { <-sem }()
				ok[i] = heapHas(tc, cands[i], cfg, pol, inv, sig, id)
			}(i, tries)
		}
		wg.Wait()
		for i := range ok {
			if ok[i] {
				return i
			}
		}
		return -1
	}
	// statement-block ddmin over the root file: chunks are top-level "paragraphs"; then single lines
	for pass := 0; pass < 2; pass++ {
		var chunks [][]byte
		if pass == 0 {
			chunks = splitParagraphs(cur.Files[cur.Root])
		} else {
			chunks = splitLinesKeep(cur.Files[cur.Root])
		}
		gran := 2
		for len(chunks) >= 2 && time.Now().Before(deadline) {
			sz := (len(chunks) + gran - 1) / gran
			var cands []*HProg
			var candChunks [][][]byte
			for s := 0; s < len(chunks); s += sz {
				e := min(s+sz, len(chunks))
				cc := append(append([][]byte{}, chunks[:s]...), chunks[e:]...)
				c := clone(cur)
				c.Files[c.Root] = joinBytes(cc)
				cands = append(cands, c)
				candChunks = append(candChunks, cc)
			}
			if i := firstOK(cands); i >= 0 {
				cur = cands[i]
				chunks = candChunks[i]
				gran = max(gran-1, 2)
				continue
			}
			if gran >= len(chunks) {
				break
			}
			gran = min(gran*2, len(chunks))
		}
	}
	return cur
}

// splitParagraphs splits DDP source into top-level units: a non-indented line with all following
// indented / continuation lines ("Und kann so benutzt werden:" belongs to the function before it).
func splitParagraphs(src []byte) [][]byte {
	lines := splitLinesKeep(src)
	var out [][]byte
	for _, l := range lines {
		s := string(l)
		cont := strings.HasPrefix(s, "\t") || strings.HasPrefix(s, " ") || strings.HasPrefix(s, "Und ") || strings.HasPrefix(s, "und ") ||
			strings.HasPrefix(s, "ist in ") || strings.HasPrefix(s, "einen ") || strings.HasPrefix(s, "eine ") || strings.HasPrefix(s, "ein ") || strings.TrimSpace(s) == ""
		if cont && len(out) > 0 {
			out[len(out)-1] = append(append([]byte{}, out[len(out)-1]...), l...)
		} else {
			out = append(out, append([]byte{}, l...))
		}
	}
	return out
}

func allCfgs() []BuildCfg {
	var cs []BuildCfg
	for _, o := range []int{0, 1, 2} {
		for _, ll := range []bool{true, false} {
			cs = append(cs, BuildCfg{O: o, LinkMods: true, LinkList: ll})
		}
	}
	return cs
}

func checkC05(tier string) int {
	tc := buildToolchain()
	progs := corpusHProgs(tc)
	if len(progs) < 60 {
		infra("corpus unusable: %d runnable programs", len(progs))
	}
	thorough := tier == "thorough"
	var jobs []*heapJob
	r := prng.Stream(seed, "heapsim", "c05")
	for _, p := range progs {
		cfgs := allCfgs()
		if !thorough {
			// always -O2 (copy elision) plus one other configuration drawn from the seed
			pr := prng.Stream(seed, "heapsim", "cfg", p.Name)
			other := cfgs[pr.Intn(4)] // O0/O1 variants
			cfgs = []BuildCfg{{O: 2, LinkMods: true, LinkList: pr.Bool()}, other}
		}
		for _, c := range cfgs {
			pols := []HeapPolicy{strictPolicy, drawPolicy(r)}
			if thorough {
				pols = append(pols, drawPolicy(r), drawPolicy(r))
			}
			if hasNonASCII(p) && (thorough || r.Chance(0.3)) {
				lm := strictPolicy
				lm.LocaleMissing = true
				pols = append(pols, lm)
			}
			jobs = append(jobs, &heapJob{Prog: p, Cfg: c, Policies: pols})
		}
	}
	// generated ownership-heavy programs
	nGen := 150
	if thorough {
		nGen = 6000
	}
	nGen = envInt("VERIF_GEN", nGen)
	genRejected := 0
	for i := 0; i < nGen; i++ {
		gr := prng.Stream(seed, "heapsim", "gen", i)
		cr := prng.Stream(seed, "heapsim", "gencfg", i)
		cfg := allCfgs()[cr.Intn(6)]
		if cr.Chance(0.5) {
			cfg.O = 2
		}
		gp := genOwnProgram(gr, i, false)
		pols := []HeapPolicy{strictPolicy, drawPolicy(gr)}
		jobs = append(jobs, &heapJob{Prog: gp, Cfg: cfg, Policies: pols})
	}
	logf("heapsim C05/%s seed=%d: %d builds (%d corpus programs, %d generated), %d workers", tier, seed, len(jobs), len(progs), nGen, nWorkers)
	t0 := time.Now()
	outs := runHeapJobs(tc, jobs, tc.Kddp)
	simWall := time.Since(t0)

	groups := map[string]*violGroup{}
	type where struct{ job, run int }
	firstAt := map[string]where{}
	execs, normal, rterr, buildFail, noReport, timeouts, resourceLimited := 0, 0, 0, 0, 0, 0, 0
	fired := map[string]int{}
	shapes := map[string]bool{}
	var moved, inplace, reused, events int64
	var samples []any
	evHash := sha256.New()
	for ji, o := range outs {
		isGen := strings.HasPrefix(o.Job.Prog.Name, "gen-own#")
		if o.BuildErr != "" {
			infra("build of %s failed to start: %s", o.Job.Prog.Name, o.BuildErr)
		}
		if o.BuildRC != 0 {
			if isGen {
				genRejected++
				if genRejected <= 3 {
					logf("generated program %s rejected by the compiler:\n%s\n%s", o.Job.Prog.Name, firstLines(o.BuildOut, 12), string(o.Job.Prog.Files[o.Job.Prog.Root]))
				}
				continue
			}
			buildFail++
			logf("corpus program %s does not build under %s:\n%s", o.Job.Prog.Name, o.Job.Cfg, firstLines(o.BuildOut, 8))
			continue
		}
		for k := range o.Runs {
			execs++
			res := o.Runs[k].Res
			fmt.Fprintf(evHash, "%s|%s|%s|%d|%s|%x\n", o.Job.Prog.Name, o.Job.Cfg, o.Runs[k].Policy, res.Exit, res.Class, sha256.Sum256(res.Stdout))
			if res.TimedOut {
				timeouts++
				continue
			}
			if res.Report == nil {
				noReport++
				logf("no heap report from %s (%s, %s): exit %d %s stderr=%q", o.Job.Prog.Name, o.Job.Cfg, o.Runs[k].Policy, res.Exit, res.Signal, firstLines(string(res.Stderr), 3))
				continue
			}
			rep := res.Report
			switch rep.Term {
			case "normal":
				normal++
			case "rterror":
				rterr++
			case "resource_limit", "arena_exhausted":
				// a generated program that grows without bound (a list doubled in a loop): the simulated heap gave up,
				// what it recorded up to there is still evaluated below
				resourceLimited++
			}
			pol := o.Runs[k].Policy
			fired["place="+pol.Place]++
			fired["move="+pol.Move]++
			fired["fill="+pol.Fill]++
			fired["reuse="+pol.Reuse]++
			fired[fmt.Sprintf("align=%d", pol.Align)]++
			if pol.LocaleMissing {
				fired["locale_missing"]++
			}
			moved += rep.Moved
			inplace += rep.Inplace
			reused += rep.Reused
			events += rep.Events
			shapes[fmt.Sprintf("%s|%d|%d|%d|%d", o.Job.Prog.Name, rep.Allocs, rep.Resizes, rep.MaxLive, rep.Events)] = true
			if len(samples) < 5 && (ji*7+k)%(len(outs)/5+1) == 3 {
				samples = append(samples, map[string]any{"program": o.Job.Prog.Name, "config": o.Job.Cfg.String(), "policy": pol.String(), "term": rep.Term,
					"ledger_events": rep.Events, "allocs": rep.Allocs, "frees": rep.Frees, "resizes": rep.Resizes, "moved": rep.Moved, "max_live_bytes": rep.MaxLive})
			}
			for _, v := range evalHeapRun(o, k, func(pc uint64) string { return o.Runs[k].LiveSyms[pc] }) {
				key := v.Inv + "\x00" + v.Sig
				g := groups[key]
				if g == nil {
					g = &violGroup{Inv: v.Inv, Sig: v.Sig, Detail: v.Detail}
					groups[key] = g
					firstAt[key] = where{ji, k}
				}
				g.Runs = append(g.Runs, ji)
			}
		}
	}
	if resourceLimited*20 > execs {
		infra("%d of %d executions ran into the simulated heap's resource limit", resourceLimited, execs)
	}
	if buildFail > 0 {
		infra("%d corpus programs did not build (toolchain trouble, not a C05 verdict)", buildFail)
	}
	if noReport > 0 {
		infra("%d executions produced no heap report", noReport)
	}
	if nGen > 0 && genRejected*5 > nGen {
		infra("%d of %d generated programs rejected by the unchanged compiler (generator bug)", genRejected, nGen)
	}
	known := loadKnown()
	keys := make([]string, 0, len(groups))
	for k := range groups {
		keys = append(keys, k)
	}
	sort.Strings(keys)
	newViol := 0
	knownHit := map[string]int{}
	os.MkdirAll(filepath.Join(verifDir, "replays"), 0o755)
	for _, k := range keys {
		g := groups[k]
		if kf := known.match("C05", g.Inv, g.Sig); kf != nil {
			knownHit[kf.Inv+"|"+kf.Sig] += len(g.Runs)
			continue
		}
		newViol++
		w := firstAt[k]
		o := outs[w.job]
		pol := o.Runs[w.run].Policy
		mp := minimiseHeap(tc, o.Job.Prog, o.Job.Cfg, pol, g.Inv, g.Sig)
		rp := &heapReplay{Property: "C05", Engine: "heapsim", Seed: seed, Inv: g.Inv, Sig: g.Sig, Detail: g.Detail, Name: mp.Name, Root: mp.Root, Files: mp.Files, Stdin: mp.Stdin, Cfg: o.Job.Cfg, Policy: pol}
		if !heapHas(tc, mp, o.Job.Cfg, pol, g.Inv, g.Sig, 100000) {
			rp.Files = o.Job.Prog.Files
			rp.Note = "minimised program did not reproduce; unminimised program reported"
		}
		name := fmt.Sprintf("C05-%s-seed%d-%s.json", sanitize(g.Inv), seed, sanitize(shortHash(g.Sig)))
		path := filepath.Join(verifDir, "replays", name)
		b, _ := json.MarshalIndent(rp, "", " ")
		os.WriteFile(path, b, 0o644)
		fmt.Printf("VIOLATION property=C05 replay=%s\n  %s signature %q in %d builds\n  %s\n", path, g.Inv, g.Sig, len(g.Runs), firstLines(g.Detail, 4))
	}
	for _, kf := range known.Findings {
		if kf.Property != "C05" || kf.Replay == "" {
			continue
		}
		if replayHeapStored(tc, filepath.Join(verifDir, kf.Replay)) {
			fmt.Printf("KNOWN-FINDING: property=C05 %s (reproducer %s still fails; %d builds of this sweep hit it)\n", kf.What, kf.Replay, knownHit[kf.Inv+"|"+kf.Sig])
		}
		// a recorded finding is scoped to the configuration it was recorded under: the same reproducer failing under
		// any other optimisation level is a different violation
		if kf.AllLevels {
			continue
		}
		if other := knownFailsElsewhere(tc, filepath.Join(verifDir, kf.Replay)); other != "" {
			newViol++
			fmt.Printf("VIOLATION property=C05 replay=%s\n  the reproducer of a finding recorded for another configuration also fails under %s\n", filepath.Join(verifDir, kf.Replay), other)
		}
	}
	ev := &Evidence{PropertyID: "C05", Tier: tier, Seed: int64(seed), Level: "exploration", Violations: newViol}
	ev.Coverage = map[string]any{
		"evaluations":         execs,
		"distinct_nontrivial": len(shapes),
		"rule": "one evaluation = one execution of a program compiled by the real kddp (scanner..LLVM..gcc link) on the simulated heap under one (build configuration, heap policy) drawn from VERIF_SEED; " +
			"distinct_nontrivial = distinct (program, #allocs, #resizes, max live bytes, #ledger events) shapes with at least one allocation",
		"samples":                   samples,
		"builds":                    len(outs),
		"corpus_programs":           len(progs),
		"generated_programs":        nGen,
		"generated_rejected":        genRejected,
		"terminated_normally":       normal,
		"terminated_laufzeitfehler": rterr,
		"timeouts":                  timeouts,
		"resource_limited":          resourceLimited,
		"ledger_events_total":       events,
		"realloc_moved":             moved,
		"realloc_in_place":          inplace,
		"blocks_reused":             reused,
		"policy_knobs_fired":        fired,
		"runs_per_hour":             perHour(execs, simWall),
		"seeds_per_hour":            perHour(1, time.Since(startT)),
		"simulated_time_s":          0,
		"simulated_time_note":       "compiled programs in the workloads read no clock; the heap is the simulated component",
		"event_log_sha256":          hex.EncodeToString(evHash.Sum(nil)),
		"violation_groups":          len(groups),
		"violation_groups_known":    len(groups) - newViol,
		"components_real":           []string{"kddp (scanner, parser, typechecker, IR generation, LLVM 14, linker package)", "gcc/ld", "lib/runtime C sources", "lib/stdlib C sources (except " + strings.Join(tc.Skipped, ", ") + ")", "Duden .ddp sources"},
		"components_simulated":      []string{"libc realloc/free below ddp_reallocate (simheap arena: guard pages, canaries, quarantine, seeded fill/move/reuse)", "setlocale fallback to C.utf8 (de_DE.UTF-8 is not installed in this image)", "libpcre2/libarchive/libz/liblzma/libbz2/liblz4 are empty stub archives"},
		"exhaustive":                false,
	}
	ev.Assumptions = []string{
		"allocation failure is not injected: no listed property says what must hold after realloc returns NULL",
		"programs using Regex/Komprimierung/Uri are excluded (external C sources absent from the image)",
		"align=1 placement is stricter than malloc's contract; a non-heap trap under it is re-run at align=16 before anything is concluded",
	}
	writeEvidence(ev)
	logf("heapsim C05 done: %d executions (%d normal, %d Laufzeitfehler), %d violation groups (%d new), generated rejected %d/%d", execs, normal, rterr, len(groups), newViol, genRejected, nGen)
	if newViol > 0 {
		return 1
	}
	return 0
}

func shortHash(s string) string {
	h := sha256.Sum256([]byte(s))
	return hex.EncodeToString(h[:4])
}

func hasNonASCII(p *HProg) bool {
	for _, b := range p.Files[p.Root] {
		if b >= 0x80 {
			return true
		}
	}
	return false
}

func replayHeapStored(tc *Toolchain, path string) bool {
	b, err := os.ReadFile(path)
	if err != nil {
		infra("cannot read %s: %v", path, err)
	}
	var rp heapReplay
	if err := json.Unmarshal(b, &rp); err != nil {
		infra("replay file %s does not parse: %v", path, err)
	}
	p := &HProg{Name: rp.Name, Root: rp.Root, Files: rp.Files, Stdin: rp.Stdin}
	return heapHas(tc, p, rp.Cfg, rp.Policy, rp.Inv, rp.Sig, nextReplayIdx())
}

var replayIdx = 200000

func nextReplayIdx() int { replayIdx++; return replayIdx }

var reModHash = regexp.MustCompile(`_mod_[0-9a-f]{16,}`)

// normSym removes the path-derived module hash from a mangled DDP symbol.
func normSym(s string) string { return reModHash.ReplaceAllString(s, "") }

// knownFailsElsewhere runs a stored reproducer under the optimisation levels it was NOT recorded for and
// returns the first configuration under which any C05 invariant fails ("" if none).
func knownFailsElsewhere(tc *Toolchain, path string) string {
	b, err := os.ReadFile(path)
	if err != nil {
		return ""
	}
	var rp heapReplay
	if json.Unmarshal(b, &rp) != nil {
		return ""
	}
	p := &HProg{Name: rp.Name, Root: rp.Root, Files: rp.Files, Stdin: rp.Stdin}
	for _, o := range []int{0, 1, 2} {
		if o == rp.Cfg.O {
			continue
		}
		cfg := rp.Cfg
		cfg.O = o
		j := &heapJob{Prog: p, Cfg: cfg, Policies: []HeapPolicy{rp.Policy}}
		out := runHeapJob(tc, j, tc.Kddp, filepath.Join(workRoot, fmt.Sprintf("hk%d", nextReplayIdx())))
		if out.BuildRC != 0 || len(out.Runs) == 0 {
			continue
		}
		if vs := evalHeapRunWithExe(tc, out); len(vs) > 0 {
			return fmt.Sprintf("%s: %s", cfg, vs[0].Detail)
		}
	}
	return ""
}
