//go:build verifsim

package main

import (
	"ddpsim/fwproto"

	"github.com/DDP-Projekt/Kompilierer/src/verifsim"
)

const orderBuild = true

func orderBegin(spec *fwproto.OrderSpec) {
	s := verifsim.Spec{Family: "identity"}
	if spec != nil {
		s = verifsim.Spec{Family: spec.Family, Seed: spec.Seed, Explicit: spec.Explicit}
	}
	verifsim.Begin(s)
}

func orderEnd(call *fwproto.Call) {
	vs, un := verifsim.End()
	for _, v := range vs {
		call.Visits = append(call.Visits, fwproto.OrderVisit{Site: v.Site, Idx: v.Idx, N: v.N, Perm: v.Perm})
	}
	call.Unident = un
}
