package main

import (
	"fmt"
	"strings"

	"ddpsim/prng"
)

// ---------------------------------------------------------------------------------------------
// W-gen-own: seeded generator of ownership-heavy DDP programs.  Every non-primitive type
// (Text, lists, nested lists, Kombinationen, Variable) appears in every ownership role
// (variable, temporary, by-value / by-Referenz argument, return value, list element, field);
// control flow leaves scopes early.  Indices are always in range and loops are bounded, so the
// behaviour is a function of the program text.
// ---------------------------------------------------------------------------------------------

type gty int

const (
	tZ  gty = iota // Zahl
	tT             // Text
	tB             // Buchstabe
	tW             // Wahrheitswert
	tZL            // Zahlen Liste
	tTL            // Text Liste
	tS             // Paar (Kombination: Text name, Zahlen Liste werte, Zahl n)
	tSL            // Paar Liste
	tV             // Variable
	tN             // Zeile Liste (nested list; Zeile = Text Liste)
)

// tN (lists of a named list type) is not generated: the pinned code generator panics on every
// such declaration (toIrType: ListType is not *StructType), so no program containing one compiles.
// Nesting is exercised through Kombinationen with list fields and lists of Kombinationen.
var heapTypes = []gty{tT, tZL, tTL, tS, tSL, tV}

func (t gty) name() string {
	return [...]string{"Zahl", "Text", "Buchstabe", "Wahrheitswert", "Zahlen Liste", "Text Liste", "Paar", "Paar Liste", "Variable", "Zeile Liste"}[t]
}

// article + type for declarations: "Der Text", "Die Zahlen Liste", ...
func (t gty) decl() string {
	return [...]string{"Die Zahl", "Der Text", "Der Buchstabe", "Der Wahrheitswert", "Die Zahlen Liste", "Die Text Liste", "Das Paar", "Die Paar Liste", "Die Variable", "Die Zeile Liste"}[t]
}

// "einen Text", "eine Zahlen Liste" for return types
func (t gty) ret() string {
	return [...]string{"eine Zahl", "einen Text", "einen Buchstaben", "einen Wahrheitswert", "eine Zahlen Liste", "eine Text Liste", "ein Paar", "eine Paar Liste", "eine Variable", "eine Zeile Liste"}[t]
}

// "jeden Text", "jede Zahl" for for-each loops over list element types
func (t gty) each() string {
	return [...]string{"jede Zahl", "jeden Text", "jeden Buchstaben", "jeden Wahrheitswert", "jede Zahlen Liste", "jede Text Liste", "jedes Paar", "jede Paar Liste", "jede Variable", "jede Zeile Liste"}[t]
}

// parameter type spelling ("Zahlen Referenz" ...)
func (t gty) param(ref bool) string {
	if !ref {
		return t.name()
	}
	return [...]string{"Zahlen Referenz", "Text Referenz", "Buchstaben Referenz", "Wahrheitswert Referenz", "Zahlen Listen Referenz", "Text Listen Referenz", "Paar Referenz", "Paar Listen Referenz", "Variablen Referenz", "Zeile Listen Referenz"}[t]
}

type gvar struct {
	name   string
	ty     gty
	minLen int  // lists and texts: a lower bound of the length that always holds
	ro     bool // must not be assigned (loop variables)
}

type gfunc struct {
	name   string
	params []gvar
	refs   []bool
	// frozen[k]: the callee never assigns reference parameter k as a whole (only elements of it), so that a Referenz to
	// one of its elements stays valid during the call.  A Referenz to an element of a list that the callee replaces is
	// the recorded finding C05/dangling-element-reference; generated programs keep away from it.
	frozen []bool
	ret    gty
	hasRet bool
	alias  string // with <p> placeholders
}

type ownGen struct {
	r      *prng.R
	b      strings.Builder
	funcs  []*gfunc
	nvar   int
	depth  int
	stmts  int
	roles  map[string]bool // (type x role x exit path) triples exercised
	inFunc *gfunc
	loop   int
	// avoidAlias: never pass a variable (or a part of it) by value and the same variable by Referenz in one call.
	// That construct was the recorded finding C05/O2-const-param-alias while it was unrepaired; since the repair
	// (e9660bf) no check sets it, so the construct is generated for every configuration.
	avoidAlias bool
	// withErrors: the program may contain one out-of-domain operation (index / slice out of range, used or unused result)
	// so that "whether and which run-time error occurs" is exercised; only used where configurations are compared (C11)
	withErrors bool
	errorsLeft int
}

var textLits = []string{"a", "Hallo", "äö", "x€y", "𝄞", "Welt!", "ß", "lang genug um zu wachsen"}

func (g *ownGen) fresh(prefix string) string {
	g.nvar++
	return fmt.Sprintf("%s%d", prefix, g.nvar)
}

func (g *ownGen) role(t gty, role string) { g.roles[t.name()+"/"+role] = true }

type genv struct {
	vars []*gvar
}

func (e *genv) push(v *gvar) { e.vars = append(e.vars, v) }
func (e *genv) mark() int    { return len(e.vars) }
func (e *genv) reset(m int)  { e.vars = e.vars[:m] }

func (e *genv) ofType(t gty, writable bool) []*gvar {
	var out []*gvar
	for _, v := range e.vars {
		if v.ty == t && (!writable || !v.ro) {
			out = append(out, v)
		}
	}
	return out
}

// expr returns an expression of type t (always parenthesised when composite) and a lower bound of its length.
func (g *ownGen) expr(e *genv, t gty, d int) (string, int) {
	r := g.r
	vars := e.ofType(t, false)
	if d <= 0 || r.Chance(0.25) {
		if len(vars) > 0 && r.Chance(0.7) {
			v := prng.Pick(r, vars)
			return v.name, v.minLen
		}
		return g.literal(t, e, d)
	}
	// calls of generated functions returning t
	var fs []*gfunc
	for _, f := range g.funcs {
		if f.hasRet && f.ret == t && f != g.inFunc {
			fs = append(fs, f)
		}
	}
	if len(fs) > 0 && r.Chance(0.3) {
		f := prng.Pick(r, fs)
		if call, ok := g.call(e, f, d-1); ok {
			g.role(t, "return-value-temp")
			return "(" + call + ")", 0
		}
	}
	switch t {
	case tZ:
		switch r.Intn(5) {
		case 0:
			a, _ := g.expr(e, tZ, d-1)
			b, _ := g.expr(e, tZ, d-1)
			return fmt.Sprintf("(%s %s %s)", a, prng.Pick(r, []string{"plus", "minus", "mal"}), b), 0
		case 1:
			lt := prng.Pick(r, []gty{tT, tZL, tTL, tSL})
			x, _ := g.expr(e, lt, d-1)
			if lt != tT && r.Chance(0.4) {
				// through a generic function (instantiated per element type): variables are passed without a copy at -O 2
				// if the instantiation is judged not to change its parameter
				if vs := e.ofType(lt, false); len(vs) > 0 && r.Chance(0.7) {
					x = prng.Pick(r, vs).name
				}
				if r.Bool() {
					g.role(lt, "argument-of-generic-function-that-changes-it")
					return fmt.Sprintf("(die doppelte Länge von %s)", x), 0
				}
				g.role(lt, "argument-of-generic-function-that-reads-it")
				return fmt.Sprintf("(die Länge von %s und %d)", x, r.Range(0, 3)), 0
			}
			g.role(lt, "operand-of-length")
			return fmt.Sprintf("(die Länge von %s)", x), 0
		case 2:
			x, n := g.expr(e, tZL, d-1)
			if n >= 1 {
				g.role(tZL, "indexed-temporary")
				return fmt.Sprintf("(%s an der Stelle %d)", x, r.Range(1, n)), 0
			}
		case 3:
			x, _ := g.expr(e, tS, d-1)
			g.role(tS, "field-read-of-temporary")
			return fmt.Sprintf("(n von %s)", x), 0
		}
		return g.literal(t, e, d)
	case tB:
		x, n := g.expr(e, tT, d-1)
		if n >= 1 {
			g.role(tT, "indexed-temporary")
			return fmt.Sprintf("(%s an der Stelle %d)", x, r.Range(1, n)), 0
		}
		return g.literal(t, e, d)
	case tW:
		if r.Chance(0.12) {
			// comparisons that are only "obviously true" if arithmetic cannot overflow
			edge := prng.Pick(r, []string{"9223372036854775807", "-9223372036854775807", "9223372036854775806", "4611686018427387904"})
			a := edge
			if vs := e.ofType(tZ, false); len(vs) > 0 && r.Chance(0.3) {
				a = prng.Pick(r, vs).name
			}
			g.roles["Zahl: comparison at the edge of the range"] = true
			switch r.Intn(4) {
			case 0:
				return fmt.Sprintf("(%s einen Nachfolger hat)", a), 0
			case 1:
				return fmt.Sprintf("(%s über %s liegt)", a, prng.Pick(r, []string{"-1", "-2", "1", edge})), 0
			case 2:
				return fmt.Sprintf("((%s plus %d) größer als %s ist)", a, r.Range(1, 3), a), 0
			default:
				return fmt.Sprintf("((%s mal 2) größer als %s ist)", a, a), 0
			}
		}
		switch r.Intn(5) {
		case 4:
			// a Text compared with a fresh copy of itself (equal length, possibly different capacity)
			if vs := e.ofType(tT, false); len(vs) > 0 {
				v := prng.Pick(r, vs)
				g.role(tT, "compared-with-own-copy")
				if r.Bool() {
					return fmt.Sprintf("(%s gleich (%s verkettet mit \"\") ist)", v.name, v.name), 0
				}
				return fmt.Sprintf("((\"\" verkettet mit %s) gleich %s ist)", v.name, v.name), 0
			}
			return g.literal(t, e, d)
		case 0:
			a, _ := g.expr(e, tT, d-1)
			b, _ := g.expr(e, tT, d-1)
			g.role(tT, "comparison-operand")
			return fmt.Sprintf("(%s gleich %s ist)", a, b), 0
		case 1:
			a, _ := g.expr(e, tZ, d-1)
			b, _ := g.expr(e, tZ, d-1)
			return fmt.Sprintf("(%s %s %s ist)", a, prng.Pick(r, []string{"kleiner als", "größer als", "gleich"}), b), 0
		case 2:
			lt := prng.Pick(r, []gty{tZL, tTL, tS})
			a, _ := g.expr(e, lt, d-1)
			b, _ := g.expr(e, lt, d-1)
			g.role(lt, "comparison-operand")
			return fmt.Sprintf("(%s gleich %s ist)", a, b), 0
		default:
			// short-circuit operands that allocate
			a, _ := g.expr(e, tW, d-1)
			b, _ := g.expr(e, tW, d-1)
			g.role(tT, "short-circuit-operand")
			return fmt.Sprintf("(%s %s %s)", a, prng.Pick(r, []string{"und", "oder"}), b), 0
		}
	case tT:
		switch r.Intn(7) {
		case 0, 1:
			a, na := g.expr(e, tT, d-1)
			b, nb := g.expr(e, tT, d-1)
			g.role(tT, "concat-operand")
			return fmt.Sprintf("(%s verkettet mit %s)", a, b), na + nb
		case 2:
			a, na := g.expr(e, tT, d-1)
			c, _ := g.expr(e, tB, d-1)
			if r.Bool() {
				return fmt.Sprintf("(%s verkettet mit %s)", a, c), na + 1
			}
			return fmt.Sprintf("(%s verkettet mit %s)", c, a), na + 1
		case 3:
			x, n := g.expr(e, tTL, d-1)
			if n >= 1 {
				g.role(tT, "list-element-read")
				return fmt.Sprintf("(%s an der Stelle %d)", x, r.Range(1, n)), 0
			}
		case 4:
			x, _ := g.expr(e, tS, d-1)
			g.role(tT, "field-read")
			return fmt.Sprintf("(name von %s)", x), 0
		case 5:
			x, n := g.expr(e, tT, d-1)
			if n >= 2 {
				k := r.Range(1, n)
				g.role(tT, "slice-operand")
				return fmt.Sprintf("(%s im Bereich von 1 bis %d)", x, k), k
			}
		case 6:
			c, _ := g.expr(e, tW, d-1)
			a, na := g.expr(e, tT, d-1)
			b, nb := g.expr(e, tT, d-1)
			g.role(tT, "ternary-branch")
			return fmt.Sprintf("(%s, falls %s, ansonsten %s)", a, c, b), min(na, nb)
		}
		return g.literal(t, e, d)
	case tZL:
		switch r.Intn(5) {
		case 0:
			a, na := g.expr(e, tZL, d-1)
			b, nb := g.expr(e, tZL, d-1)
			g.role(tZL, "concat-operand")
			return fmt.Sprintf("(%s verkettet mit %s)", a, b), na + nb
		case 1:
			a, na := g.expr(e, tZL, d-1)
			z, _ := g.expr(e, tZ, d-1)
			if r.Bool() {
				return fmt.Sprintf("(%s verkettet mit %s)", a, z), na + 1
			}
			return fmt.Sprintf("(%s verkettet mit %s)", z, a), na + 1
		case 2:
			x, _ := g.expr(e, tS, d-1)
			g.role(tZL, "field-read")
			return fmt.Sprintf("(werte von %s)", x), 0
		case 3:
			x, n := g.expr(e, tZL, d-1)
			if n >= 2 {
				k := r.Range(1, n)
				g.role(tZL, "slice-operand")
				return fmt.Sprintf("(%s im Bereich von 1 bis %d)", x, k), k
			}
		}
		return g.literal(t, e, d)
	case tTL:
		switch r.Intn(5) {
		case 0:
			a, na := g.expr(e, tTL, d-1)
			b, nb := g.expr(e, tTL, d-1)
			g.role(tTL, "concat-operand")
			return fmt.Sprintf("(%s verkettet mit %s)", a, b), na + nb
		case 1:
			a, na := g.expr(e, tTL, d-1)
			s, _ := g.expr(e, tT, d-1)
			g.role(tT, "appended-to-list")
			if r.Bool() {
				return fmt.Sprintf("(%s verkettet mit %s)", a, s), na + 1
			}
			return fmt.Sprintf("(%s verkettet mit %s)", s, a), na + 1
		}
		return g.literal(t, e, d)
	case tS:
		switch r.Intn(3) {
		case 0:
			x, n := g.expr(e, tSL, d-1)
			if n >= 1 {
				g.role(tS, "list-element-read")
				return fmt.Sprintf("(%s an der Stelle %d)", x, r.Range(1, n)), 0
			}
		}
		return g.literal(t, e, d)
	case tSL:
		switch r.Intn(5) {
		case 4:
			a, _ := g.expr(e, tS, d-1)
			b, _ := g.expr(e, tS, d-1)
			g.role(tS, "two-values-concatenated-to-list")
			return fmt.Sprintf("(%s verkettet mit %s)", a, b), 2
		case 0:
			a, na := g.expr(e, tSL, d-1)
			s, _ := g.expr(e, tS, d-1)
			g.role(tS, "appended-to-list")
			return fmt.Sprintf("(%s verkettet mit %s)", a, s), na + 1
		case 1:
			a, na := g.expr(e, tSL, d-1)
			b, nb := g.expr(e, tSL, d-1)
			g.role(tSL, "concat-operand")
			return fmt.Sprintf("(%s verkettet mit %s)", a, b), na + nb
		}
		return g.literal(t, e, d)
	case tV:
		it := prng.Pick(r, []gty{tZ, tT, tZL, tTL, tS})
		x, _ := g.expr(e, it, d-1)
		g.role(it, "boxed-into-Variable")
		return fmt.Sprintf("(%s als Variable)", x), 0
	case tN:
		if r.Chance(0.4) {
			a, na := g.expr(e, tN, d-1)
			b, nb := g.expr(e, tN, d-1)
			g.role(tN, "concat-operand")
			return fmt.Sprintf("(%s verkettet mit %s)", a, b), na + nb
		}
		return g.literal(t, e, d)
	}
	return g.literal(t, e, d)
}

func (g *ownGen) literal(t gty, e *genv, d int) (string, int) {
	r := g.r
	switch t {
	case tZ:
		return fmt.Sprint(r.Range(0, 9)), 0
	case tT:
		s := prng.Pick(r, textLits)
		return `"` + s + `"`, len([]rune(s))
	case tB:
		return prng.Pick(r, []string{"'a'", "'Z'", "'ä'", "'€'", "'𝄞'"}), 0
	case tW:
		return prng.Pick(r, []string{"wahr", "falsch"}), 0
	case tZL:
		if r.Chance(0.15) {
			return "(eine leere Zahlen Liste)", 0
		}
		n := r.Range(1, 4)
		var xs []string
		for i := 0; i < n; i++ {
			xs = append(xs, fmt.Sprint(r.Range(0, 99)))
		}
		return "(eine Liste, die aus " + strings.Join(xs, ", ") + " besteht)", n
	case tTL:
		if r.Chance(0.15) {
			return "(eine leere Text Liste)", 0
		}
		n := r.Range(1, 3)
		var xs []string
		for i := 0; i < n; i++ {
			if d > 0 && r.Chance(0.4) {
				x, _ := g.expr(e, tT, d-1)
				xs = append(xs, x)
				g.role(tT, "list-literal-element")
			} else {
				xs = append(xs, `"`+prng.Pick(r, textLits)+`"`)
			}
		}
		return "(eine Liste, die aus " + strings.Join(xs, ", ") + " besteht)", n
	case tS:
		switch r.Intn(3) {
		case 0:
			return "(ein leeres Paar)", 0
		case 1:
			n, _ := g.expr(e, tT, d-1)
			g.role(tT, "struct-literal-field")
			return fmt.Sprintf("(ein Paar namens %s)", n), 0
		default:
			n, _ := g.expr(e, tT, d-1)
			w, _ := g.expr(e, tZL, d-1)
			g.role(tZL, "struct-literal-field")
			return fmt.Sprintf("(ein Paar namens %s mit den Werten %s)", n, w), 0
		}
	case tSL:
		if r.Chance(0.2) {
			return "(eine leere Paar Liste)", 0
		}
		n := r.Range(1, 2)
		var xs []string
		for i := 0; i < n; i++ {
			x, _ := g.expr(e, tS, d-1)
			xs = append(xs, x)
		}
		g.role(tS, "list-literal-element")
		return "(eine Liste, die aus " + strings.Join(xs, ", ") + " besteht)", n
	case tV:
		return g.expr(e, tV, 1)
	case tN:
		if r.Chance(0.2) {
			return "(eine leere Zeile Liste)", 0
		}
		n := r.Range(1, 2)
		var xs []string
		for i := 0; i < n; i++ {
			x, _ := g.expr(e, tTL, max(d-1, 0))
			xs = append(xs, x)
		}
		g.role(tTL, "nested-list-literal-element")
		return "(eine Liste, die aus " + strings.Join(xs, ", ") + " besteht)", n
	}
	return "0", 0
}

// call renders a call of f with arguments from e.  By-Referenz parameters need a writable variable.
func (g *ownGen) call(e *genv, f *gfunc, d int) (string, bool) {
	s := f.alias
	var lastVar string
	var args []string
	for i, p := range f.params {
		var arg string
		if f.refs[i] {
			vs := e.ofType(p.ty, true)
			if len(vs) == 0 {
				return "", false
			}
			v := prng.Pick(g.r, vs)
			// inside a function: prefer handing on one of the function's own by-value parameters
			if g.inFunc != nil && g.r.Chance(0.5) {
				for k, fp := range g.inFunc.params {
					if !g.inFunc.refs[k] && fp.ty == p.ty {
						for _, c := range vs {
							if c.name == fp.name {
								v = c
							}
						}
					}
				}
			}
			// prefer the variable that was already passed by value in this call
			if lastVar != "" && g.r.Chance(0.6) {
				for _, c := range vs {
					if c.name == lastVar {
						v = c
					}
				}
			}
			arg = v.name
			// the same storage through two reference parameters: the same variable again, or an element of a list passed before
			for k := 0; k < i; k++ {
				if !f.refs[k] {
					continue
				}
				if f.params[k].ty == p.ty && g.r.Chance(0.5) {
					arg = args[k]
					g.roles["call: same variable for two Referenz parameters"] = true
				} else if (f.params[k].ty == tTL && p.ty == tT || f.params[k].ty == tSL && p.ty == tS) && f.frozen[k] && !strings.HasPrefix(args[k], "(") && g.r.Chance(0.8) {
					for _, c := range e.vars {
						if c.name == args[k] && c.minLen >= 1 {
							arg = fmt.Sprintf("(%s an der Stelle 1)", c.name)
							g.roles["call: list and one of its elements for two Referenz parameters"] = true
						}
					}
				}
			}
			g.role(p.ty, "argument-by-Referenz")
			if g.inFunc != nil {
				for k, fp := range g.inFunc.params {
					if fp.name == v.name && !g.inFunc.refs[k] {
						g.role(p.ty, "own-by-value-parameter-passed-on-by-Referenz")
					}
				}
			}
			if lastVar == v.name {
				g.role(p.ty, "same-variable-by-value-and-by-Referenz")
			}
		} else {
			vs := e.ofType(p.ty, false)
			if len(vs) > 0 && g.r.Chance(0.6) {
				v := prng.Pick(g.r, vs)
				arg = v.name
				if !v.ro {
					lastVar = v.name
				}
				g.role(p.ty, "argument-by-value-variable")
			} else {
				arg, _ = g.expr(e, p.ty, d)
				g.role(p.ty, "argument-by-value-temporary")
			}
		}
		s = strings.Replace(s, "<"+p.name+">", arg, 1)
		args = append(args, arg)
	}
	for i := range f.params {
		if f.refs[i] && strings.HasPrefix(args[i], "(") {
			for k := range f.params {
				if k != i && f.refs[k] && !f.frozen[k] && !strings.HasPrefix(args[k], "(") && containsIdent(args[i], args[k]) {
					return "", false
				}
			}
		}
	}
	// what was passed by Referenz may come back shorter
	for i := range f.params {
		if f.refs[i] {
			for _, c := range e.vars {
				if containsIdent(args[i], c.name) {
					c.minLen = 0
				}
			}
		}
	}
	for i := range f.params {
		if !f.refs[i] {
			continue
		}
		for k := range f.params {
			if k != i && !f.refs[k] && containsIdent(args[k], args[i]) {
				if g.avoidAlias {
					return "", false
				}
				g.roles["call: by-value argument mentions a variable passed by Referenz in the same call"] = true
			}
		}
	}
	return s, true
}

// aliasCall declares a local variable and passes it to an earlier function both by value and by Referenz (where one
// has parameters of the same type in both modes), every other argument drawn as usual; afterwards the local is used
// again.  What the callee sees through the by-value parameter must not depend on what it writes through the reference.
func (g *ownGen) aliasCall(e *genv, ind int) {
	type cand struct {
		f    *gfunc
		v, r int
	}
	var cs []cand
	for _, f := range g.funcs {
		if f == g.inFunc {
			continue
		}
		for i := range f.params {
			for k := range f.params {
				if i != k && !f.refs[i] && f.refs[k] && f.params[i].ty == f.params[k].ty && f.params[i].ty != tZ {
					cs = append(cs, cand{f, i, k})
				}
			}
		}
	}
	if len(cs) == 0 {
		return
	}
	c := prng.Pick(g.r, cs)
	t := c.f.params[c.v].ty
	x, n := g.literal(t, e, 1)
	l := &gvar{name: g.fresh("l"), ty: t, minLen: n}
	g.line(ind, fmt.Sprintf("%s %s ist %s.", t.decl(), l.name, x))
	s := c.f.alias
	for i, p := range c.f.params {
		var arg string
		switch {
		case i == c.v || i == c.r:
			arg = l.name
		case c.f.refs[i]:
			vs := e.ofType(p.ty, true)
			if len(vs) == 0 {
				return
			}
			arg = prng.Pick(g.r, vs).name
		default:
			vs := e.ofType(p.ty, false)
			if len(vs) > 0 && g.r.Bool() {
				arg = prng.Pick(g.r, vs).name
			} else {
				arg, _ = g.expr(e, p.ty, 1)
			}
		}
		s = strings.Replace(s, "<"+p.name+">", arg, 1)
	}
	g.roles["call: fresh local by value and by Referenz in the same call"] = true
	if c.f.hasRet {
		v := &gvar{name: g.fresh("r"), ty: c.f.ret}
		g.line(ind, fmt.Sprintf("%s %s ist %s.", c.f.ret.decl(), v.name, s))
		e.push(v)
	} else {
		g.line(ind, s+".")
	}
	l.minLen = 0
	e.push(l)
}

// containsIdent reports whether the identifier name occurs in the expression text
func containsIdent(expr, name string) bool {
	for i := 0; i+len(name) <= len(expr); i++ {
		if expr[i:i+len(name)] != name {
			continue
		}
		before := i == 0 || !isIdentByte(expr[i-1])
		after := i+len(name) == len(expr) || !isIdentByte(expr[i+len(name)])
		if before && after {
			return true
		}
	}
	return false
}

func isIdentByte(b byte) bool {
	return b == '_' || b >= 0x80 || (b >= '0' && b <= '9') || (b >= 'a' && b <= 'z') || (b >= 'A' && b <= 'Z')
}

func (g *ownGen) line(ind int, s string) {
	g.b.WriteString(strings.Repeat("\t", ind))
	g.b.WriteString(s)
	g.b.WriteString("\n")
}

func (g *ownGen) cond(e *genv) string {
	c, _ := g.expr(e, tW, 2)
	return strings.TrimSuffix(strings.TrimPrefix(c, "("), ")")
}

func (g *ownGen) printStmt(e *genv, ind int) {
	t := prng.Pick(g.r, []gty{tZ, tT, tT, tZL, tTL, tB, tW})
	x, _ := g.expr(e, t, 2)
	g.role(t, "discarded-after-print")
	if g.inFunc != nil && !strings.HasPrefix(x, "(") && g.r.Bool() {
		// a bare variable handed to an output function makes a parameter "possibly modified"; keep it constant half of the time
		switch t {
		case tT:
			x = fmt.Sprintf("(%s verkettet mit \"\")", x)
		case tZL:
			x = fmt.Sprintf("(%s verkettet mit (eine leere Zahlen Liste))", x)
		case tTL:
			x = fmt.Sprintf("(%s verkettet mit (eine leere Text Liste))", x)
		}
	}
	g.line(ind, fmt.Sprintf("Schreibe %s auf eine Zeile.", x))
}

// block emits n statements at indentation ind; returns nothing. exits: which early exits are legal here.
func (g *ownGen) block(e *genv, ind, n int) {
	m := e.mark()
	defer e.reset(m)
	for i := 0; i < n && g.stmts < 60; i++ {
		g.stmt(e, ind)
	}
	if e.mark() == m && n > 0 {
		g.printStmt(e, ind) // a block must not be empty
	}
}

func (g *ownGen) stmt(e *genv, ind int) {
	r := g.r
	g.stmts++
	nested := ind - 1
	if g.inFunc == nil {
		nested = ind
	}
	if r.Chance(0.06) {
		// a generic function with two type parameters, instantiated with the same two types in both orders
		ts := []gty{tZ, tT, tZL, tTL}
		p := r.Perm(len(ts))
		ta, tb := ts[p[0]], ts[p[1]]
		a1, _ := g.expr(e, ta, 1)
		b1, _ := g.expr(e, tb, 1)
		a2, _ := g.expr(e, ta, 1)
		b2, _ := g.expr(e, tb, 1)
		g.line(ind, fmt.Sprintf("zeige %s und dann %s.", a1, b1))
		g.line(ind, fmt.Sprintf("zeige %s und dann %s.", b2, a2))
		g.roles["generic function with two type parameters instantiated in both orders"] = true
		return
	}
	switch k := r.Intn(17); {
	case k <= 2: // declaration of a non-primitive variable
		t := prng.Pick(r, heapTypes)
		x, n := g.expr(e, t, 2)
		v := &gvar{name: g.fresh("v"), ty: t, minLen: n}
		g.line(ind, fmt.Sprintf("%s %s ist %s.", t.decl(), v.name, x))
		e.push(v)
		g.role(t, "variable")
	case k == 3: // primitive declaration
		t := prng.Pick(r, []gty{tZ, tW, tB})
		x, _ := g.expr(e, t, 2)
		v := &gvar{name: g.fresh("p"), ty: t}
		g.line(ind, fmt.Sprintf("%s %s ist %s.", t.decl(), v.name, x))
		e.push(v)
	case k == 4: // assignment to a variable (the old value must be released)
		t := prng.Pick(r, heapTypes)
		vs := e.ofType(t, true)
		if len(vs) == 0 {
			g.printStmt(e, ind)
			return
		}
		v := prng.Pick(r, vs)
		x, n := g.expr(e, t, 2)
		g.line(ind, fmt.Sprintf("Speichere %s in %s.", x, v.name))
		v.minLen = min(v.minLen, n)
		g.role(t, "assignment-target")
	case k == 5: // assignment into a list element or a field
		switch r.Intn(4) {
		case 3:
			if vs := e.ofType(tT, true); len(vs) > 0 {
				v := prng.Pick(r, vs)
				if v.minLen >= 1 {
					c, _ := g.literal(tB, e, 0)
					g.line(ind, fmt.Sprintf("Speichere %s in %s an der Stelle %d.", c, v.name, r.Range(1, v.minLen)))
					g.role(tT, "character-replaced-in-place")
					return
				}
			}
		case 0:
			if vs := e.ofType(tTL, true); len(vs) > 0 {
				v := prng.Pick(r, vs)
				if v.minLen >= 1 {
					x, _ := g.expr(e, tT, 2)
					g.line(ind, fmt.Sprintf("Speichere %s in %s an der Stelle %d.", x, v.name, r.Range(1, v.minLen)))
					g.role(tT, "list-element-assignment")
					return
				}
			}
		case 1:
			if vs := e.ofType(tS, true); len(vs) > 0 {
				v := prng.Pick(r, vs)
				if r.Bool() {
					x, _ := g.expr(e, tT, 2)
					g.line(ind, fmt.Sprintf("Speichere %s in name von %s.", x, v.name))
					g.role(tT, "field-assignment")
				} else {
					x, _ := g.expr(e, tZL, 2)
					g.line(ind, fmt.Sprintf("Speichere %s in werte von %s.", x, v.name))
					g.role(tZL, "field-assignment")
				}
				return
			}
		case 2:
			if vs := e.ofType(tSL, true); len(vs) > 0 {
				v := prng.Pick(r, vs)
				if v.minLen >= 1 {
					x, _ := g.expr(e, tS, 2)
					g.line(ind, fmt.Sprintf("Speichere %s in %s an der Stelle %d.", x, v.name, r.Range(1, v.minLen)))
					g.role(tS, "list-element-assignment")
					return
				}
			}
		}
		g.printStmt(e, ind)
	case k == 6 || k == 7:
		g.printStmt(e, ind)
	case k == 8 && nested < 3: // if / else
		g.line(ind, fmt.Sprintf("Wenn %s, dann:", g.cond(e)))
		g.block(e, ind+1, r.Range(1, 3))
		if r.Chance(0.5) {
			g.line(ind, "Sonst:")
			g.block(e, ind+1, r.Range(1, 2))
		}
	case k == 9 && nested < 3: // loops
		g.loopStmt(e, ind)
	case k == 13 && g.withErrors && g.errorsLeft > 0 && r.Chance(0.5): // an out-of-domain operation
		g.errorsLeft--
		switch r.Intn(4) {
		case 0: // unused result in a local (dead unless the call has an effect)
			x, n := g.expr(e, tT, 1)
			g.line(ind, fmt.Sprintf("Der Buchstabe %s ist (%s an der Stelle %d).", g.fresh("tot"), x, n+50))
			g.role(tT, "out-of-range-index-unused")
		case 1:
			x, n := g.expr(e, tZL, 1)
			g.line(ind, fmt.Sprintf("Die Zahl %s ist (%s an der Stelle %d).", g.fresh("tot"), x, n+50))
			g.role(tZL, "out-of-range-index-unused")
		case 2:
			x, n := g.expr(e, tTL, 1)
			g.line(ind, fmt.Sprintf("Schreibe (%s an der Stelle %d) auf eine Zeile.", x, n+50))
			g.role(tTL, "out-of-range-index-used")
		default:
			x, _ := g.expr(e, tT, 1)
			g.line(ind, fmt.Sprintf("Schreibe (%s an der Stelle 0) auf eine Zeile.", x))
			g.role(tT, "index-zero")
		}
	case k == 14 || k == 15 || k == 16: // a call nested in the argument of another call (the output function), results observed
		var fs []*gfunc
		for _, f := range g.funcs {
			if f != g.inFunc && f.hasRet {
				fs = append(fs, f)
			}
		}
		// prefer functions with a Referenz parameter: their effect on the argument is what the caller must (not) see
		var withRef []*gfunc
		for _, f := range fs {
			for _, isRef := range f.refs {
				if isRef {
					withRef = append(withRef, f)
					break
				}
			}
		}
		if len(withRef) > 0 && r.Chance(0.7) {
			fs = withRef
		}
		if len(fs) > 0 {
			f := prng.Pick(r, fs)
			if call, ok := g.call(e, f, 1); ok {
				g.role(f.ret, "call-nested-in-call-argument")
				switch f.ret {
				case tT, tZL, tTL, tZ, tB, tW:
					g.line(ind, fmt.Sprintf("Schreibe (%s) auf eine Zeile.", call))
				case tS:
					g.line(ind, fmt.Sprintf("Schreibe (name von (%s)) auf eine Zeile.", call))
				case tSL:
					g.line(ind, fmt.Sprintf("Schreibe (die Länge von (%s)) auf eine Zeile.", call))
				default:
					v := &gvar{name: g.fresh("r"), ty: f.ret}
					g.line(ind, fmt.Sprintf("%s %s ist %s.", f.ret.decl(), v.name, call))
					e.push(v)
				}
				return
			}
		}
		g.printStmt(e, ind)
	case k == 10: // call statement (procedure or discarded result)
		if len(g.funcs) > 0 {
			f := prng.Pick(r, g.funcs)
			if f != g.inFunc {
				if call, ok := g.call(e, f, 2); ok {
					if f.hasRet {
						// results cannot be discarded in DDP: bind them
						v := &gvar{name: g.fresh("r"), ty: f.ret}
						g.line(ind, fmt.Sprintf("%s %s ist %s.", f.ret.decl(), v.name, call))
						e.push(v)
						g.role(f.ret, "return-value-bound")
					} else {
						g.line(ind, call+".")
					}
					return
				}
			}
		}
		g.printStmt(e, ind)
	case k == 11 && g.loop > 0: // leave / continue a loop from an inner scope, after allocating
		t := prng.Pick(r, heapTypes)
		x, _ := g.expr(e, t, 1)
		g.line(ind, fmt.Sprintf("Wenn %s, dann:", g.cond(e)))
		g.line(ind+1, fmt.Sprintf("%s %s ist %s.", t.decl(), g.fresh("q"), x))
		if r.Bool() {
			g.line(ind+1, "Verlasse die Schleife.")
			g.role(t, "live-at-break")
		} else {
			g.line(ind+1, "Fahre mit der Schleife fort.")
			g.role(t, "live-at-continue")
		}
	case k == 12 && g.inFunc != nil: // early return from a nested block
		f := g.inFunc
		g.line(ind, fmt.Sprintf("Wenn %s, dann:", g.cond(e)))
		t := prng.Pick(r, heapTypes)
		x, _ := g.expr(e, t, 1)
		g.line(ind+1, fmt.Sprintf("%s %s ist %s.", t.decl(), g.fresh("q"), x))
		g.role(t, "live-at-return")
		g.retStmt(e, f, ind+1)
	default:
		g.printStmt(e, ind)
	}
}

func (g *ownGen) retStmt(e *genv, f *gfunc, ind int) {
	if !f.hasRet {
		g.line(ind, "Verlasse die Funktion.")
		return
	}
	vs := e.ofType(f.ret, false)
	if len(vs) > 0 && g.r.Chance(0.6) {
		v := prng.Pick(g.r, vs)
		g.line(ind, fmt.Sprintf("Gib %s zurück.", v.name))
		g.role(f.ret, "returned-variable")
		return
	}
	x, _ := g.expr(e, f.ret, 2)
	g.line(ind, fmt.Sprintf("Gib %s zurück.", x))
	g.role(f.ret, "returned-temporary")
}

func (g *ownGen) loopStmt(e *genv, ind int) {
	r := g.r
	g.loop++
	defer func() { g.loop-- }()
	m := e.mark()
	defer e.reset(m)
	// a small count that needs a temporary list / text to be computed: (die Länge von <heap expr>) is between 0 and ~8
	smallCount := func() string {
		if r.Chance(0.5) {
			return fmt.Sprint(r.Range(1, 3))
		}
		lt := prng.Pick(r, []gty{tZL, tTL, tT})
		x, _ := g.literal(lt, e, 1)
		if vs := e.ofType(lt, false); len(vs) > 0 && r.Bool() {
			v := prng.Pick(r, vs)
			x = fmt.Sprintf("(%s verkettet mit %s)", x, v.name)
			if lt == tT {
				x = fmt.Sprintf("((%s verkettet mit \"\") im Bereich von 1 bis 3)", v.name)
			} else {
				x = fmt.Sprintf("((%s verkettet mit %s) im Bereich von 1 bis 3)", x, v.name)
			}
		}
		g.role(lt, "temporary-in-loop-header")
		return fmt.Sprintf("(die Länge von %s)", x)
	}
	switch r.Intn(6) {
	case 5:
		// counting down with a step, all three header expressions may allocate
		iv := &gvar{name: g.fresh("i"), ty: tZ, ro: true}
		g.line(ind, fmt.Sprintf("Für jede Zahl %s von %s bis 1 mit Schrittgröße (0 minus 1), mache:", iv.name, smallCount()))
		e.push(iv)
		g.block(e, ind+1, r.Range(1, 3))
	case 0:
		iv := &gvar{name: g.fresh("i"), ty: tZ, ro: true}
		g.line(ind, fmt.Sprintf("Für jede Zahl %s von 1 bis %s, mache:", iv.name, smallCount()))
		e.push(iv)
		g.block(e, ind+1, r.Range(1, 3))
	case 1:
		lt, et := tTL, tT
		switch r.Intn(3) {
		case 1:
			lt, et = tZL, tZ
		case 2:
			lt, et = tSL, tS
		}
		x, _ := g.expr(e, lt, 2)
		iv := &gvar{name: g.fresh("e"), ty: et, ro: true}
		g.line(ind, fmt.Sprintf("Für %s %s in %s, mache:", et.each(), iv.name, x))
		g.role(lt, "for-each-iterated")
		e.push(iv)
		g.block(e, ind+1, r.Range(1, 3))
	case 2:
		x, _ := g.expr(e, tT, 2)
		iv := &gvar{name: g.fresh("c"), ty: tB, ro: true}
		g.line(ind, fmt.Sprintf("Für jeden Buchstaben %s in %s, mache:", iv.name, x))
		g.role(tT, "for-each-iterated")
		e.push(iv)
		g.block(e, ind+1, r.Range(1, 2))
	case 3:
		cv := &gvar{name: g.fresh("k"), ty: tZ, ro: true}
		g.line(ind, fmt.Sprintf("Die Zahl %s ist 0.", cv.name))
		e.push(cv)
		m2 := e.mark()
		if r.Bool() {
			g.line(ind, fmt.Sprintf("Solange %s kleiner als %s ist, mache:", cv.name, smallCount()))
			g.line(ind+1, fmt.Sprintf("Erhöhe %s um 1.", cv.name))
			g.block(e, ind+1, r.Range(1, 3))
		} else {
			g.line(ind, "Mache:")
			g.line(ind+1, fmt.Sprintf("Erhöhe %s um 1.", cv.name))
			g.block(e, ind+1, r.Range(1, 3))
			g.line(ind, fmt.Sprintf("Solange %s kleiner als %s ist.", cv.name, smallCount()))
		}
		e.reset(m2)
	default:
		g.line(ind, "Wiederhole:")
		g.block(e, ind+1, r.Range(1, 2))
		g.line(ind, fmt.Sprintf("%s Mal.", smallCount()))
	}
}

// selfPrelude replaces the import of Duden/Ausgabe: the program declares the extern output functions itself, so it
// consists of one module and can be compiled with --module-linken=false as well.
const selfPrelude = `Die Funktion Schreibe_Zahl mit dem Parameter p1 vom Typ Zahl, gibt nichts zurück,
ist in "libddpstdlib.a" definiert
und kann so benutzt werden:
	"Drucke <p1>"

Die Funktion Schreibe_Text mit dem Parameter p1 vom Typ Text, gibt nichts zurück,
ist in "libddpstdlib.a" definiert
und kann so benutzt werden:
	"Drucke <p1>"

Die Funktion Schreibe_Buchstabe mit dem Parameter p1 vom Typ Buchstabe, gibt nichts zurück,
ist in "libddpstdlib.a" definiert
und kann so benutzt werden:
	"Drucke <p1>"

Die Funktion Schreibe_Wahrheitswert mit dem Parameter p1 vom Typ Wahrheitswert, gibt nichts zurück,
ist in "libddpstdlib.a" definiert
und kann so benutzt werden:
	"Drucke <p1>"

Die Funktion SZ_Zahl mit dem Parameter p1 vom Typ Zahl, gibt nichts zurück, macht:
	Drucke p1.
	Drucke '\n'.
Und kann so benutzt werden:
	"Schreibe <p1> auf eine Zeile"

Die Funktion SZ_Text mit dem Parameter p1 vom Typ Text, gibt nichts zurück, macht:
	Drucke p1.
	Drucke '\n'.
Und kann so benutzt werden:
	"Schreibe <p1> auf eine Zeile"

Die Funktion SZ_Buchstabe mit dem Parameter p1 vom Typ Buchstabe, gibt nichts zurück, macht:
	Drucke p1.
	Drucke '\n'.
Und kann so benutzt werden:
	"Schreibe <p1> auf eine Zeile"

Die Funktion SZ_Wahrheitswert mit dem Parameter p1 vom Typ Wahrheitswert, gibt nichts zurück, macht:
	Drucke p1.
	Drucke '\n'.
Und kann so benutzt werden:
	"Schreibe <p1> auf eine Zeile"

Die Funktion SZ_Zahlen_Liste mit dem Parameter p1 vom Typ Zahlen Liste, gibt nichts zurück, macht:
	Für jede Zahl element in p1, mache:
		Drucke element.
		Drucke ' '.
	Drucke '\n'.
Und kann so benutzt werden:
	"Schreibe <p1> auf eine Zeile"

Die Funktion SZ_Text_Liste mit dem Parameter p1 vom Typ Text Liste, gibt nichts zurück, macht:
	Für jeden Text element in p1, mache:
		Drucke element.
		Drucke ' '.
	Drucke '\n'.
Und kann so benutzt werden:
	"Schreibe <p1> auf eine Zeile"
`

const ownPrelude = `Binde "Duden/Ausgabe" ein.

Wir nennen die Kombination aus
	dem Text name mit Standardwert "niemand",
	der Zahlen Liste werte mit Standardwert eine leere Zahlen Liste,
	der Zahl n mit Standardwert 0,
ein Paar, und erstellen sie so:
	"ein leeres Paar" oder
	"ein Paar namens <name>" oder
	"ein Paar namens <name> mit den Werten <werte>"

[ generic functions: one changes its by-value parameter, one only reads it ]
Die generische Funktion verdoppelt_lang mit dem Parameter gl vom Typ T Liste, gibt eine Zahl zurück, macht:
	Speichere gl verkettet mit gl in gl.
	Gib die Länge von gl zurück.
Und kann so benutzt werden:
	"die doppelte Länge von <gl>"

Die generische Funktion nur_lang mit den Parametern gl und gz vom Typ T Liste und Zahl, gibt eine Zahl zurück, macht:
	Gib (die Länge von gl) plus gz zurück.
Und kann so benutzt werden:
	"die Länge von <gl> und <gz>"

[ two type parameters: instantiated with the same types in both orders ]
Die generische Funktion zeige_beide mit den Parametern ga und gb vom Typ T und R, gibt nichts zurück, macht:
	Schreibe ga auf eine Zeile.
	Schreibe gb auf eine Zeile.
Und kann so benutzt werden:
	"zeige <ga> und dann <gb>"

[ arithmetic at the edge of the range of Zahl wraps around, at every optimisation level ]
Die Funktion hat_nachfolger mit dem Parameter gn vom Typ Zahl, gibt einen Wahrheitswert zurück, macht:
	Gib gn plus 1 größer als gn ist zurück.
Und kann so benutzt werden:
	"<gn> einen Nachfolger hat"

Die Funktion liegt_ueber mit den Parametern gx und gy vom Typ Zahl und Zahl, gibt einen Wahrheitswert zurück, macht:
	Gib gx minus gy größer als 0 ist zurück.
Und kann so benutzt werden:
	"<gx> über <gy> liegt"

`

func genOwnProgram(r *prng.R, idx int, avoidAlias bool) *HProg {
	return genOwnProgramOpt(r, idx, avoidAlias, false)
}

func genOwnProgramOpt(r *prng.R, idx int, avoidAlias, selfContained bool) *HProg {
	return genOwnProgramFull(r, idx, avoidAlias, selfContained, false)
}

func genOwnProgramFull(r *prng.R, idx int, avoidAlias, selfContained, withErrors bool) *HProg {
	g := &ownGen{r: r, roles: map[string]bool{}, avoidAlias: avoidAlias, withErrors: withErrors, errorsLeft: 1}
	if selfContained {
		g.b.WriteString(selfPrelude)
		g.b.WriteString(strings.TrimPrefix(ownPrelude, "Binde \"Duden/Ausgabe\" ein.\n"))
	} else {
		g.b.WriteString(ownPrelude)
	}
	// functions
	nf := r.Range(2, 5)
	var later []string // definitions of forward declared functions
	focus := []gty{prng.Pick(r, heapTypes), prng.Pick(r, heapTypes)}
	for i := 0; i < nf; i++ {
		f := &gfunc{name: fmt.Sprintf("fn%d", i)}
		np := r.Range(0, 4)
		alias := fmt.Sprintf("fn%d", i)
		for k := 0; k < np; k++ {
			t := prng.Pick(r, heapTypes)
			if r.Chance(0.7) {
				t = prng.Pick(r, focus) // few types per program: parameters of different functions fit each other
			}
			if r.Chance(0.15) {
				t = tZ
			}
			p := gvar{name: fmt.Sprintf("a%d", k), ty: t}
			ref := r.Chance(0.35)
			// twin reference parameters: the same type (or the element type of the list before) by Referenz twice
			if k > 0 && r.Chance(0.25) {
				prev := f.params[k-1].ty
				p.ty = prev
				if prev == tTL && r.Bool() {
					p.ty = tT
				} else if prev == tSL && r.Bool() {
					p.ty = tS
				}
				ref = true
				f.refs[k-1] = true
				if p.ty != prev {
					f.frozen[k-1] = true
				}
			}
			f.params = append(f.params, p)
			f.refs = append(f.refs, ref)
			f.frozen = append(f.frozen, false)
			alias += fmt.Sprintf(" %s <%s>", []string{"mit", "und", "sowie", "dazu"}[k], p.name)
		}
		f.alias = alias
		if r.Chance(0.7) {
			f.hasRet = true
			f.ret = prng.Pick(r, heapTypes)
			if r.Chance(0.15) {
				f.ret = tZ
			}
		}
		// header
		hdr := fmt.Sprintf("Die Funktion %s", f.name)
		switch len(f.params) {
		case 0:
		case 1:
			hdr += fmt.Sprintf(" mit dem Parameter %s vom Typ %s", f.params[0].name, f.params[0].ty.param(f.refs[0]))
		default:
			var ns, ts []string
			for k, p := range f.params {
				ns = append(ns, p.name)
				ts = append(ts, p.ty.param(f.refs[k]))
			}
			hdr += fmt.Sprintf(" mit den Parametern %s vom Typ %s", joinNames(ns), joinNames(ts))
		}
		if len(f.params) > 0 {
			hdr += ","
		}
		if f.hasRet {
			hdr += fmt.Sprintf(" gibt %s zurück,", f.ret.ret())
		} else {
			hdr += " gibt nichts zurück,"
		}
		// now and then declared first and defined after the main part of the program
		forward := r.Chance(0.25)
		var outer string
		if forward {
			g.line(0, hdr)
			g.line(0, "wird später definiert")
			g.line(0, "und kann so benutzt werden:")
			g.line(1, `"`+f.alias+`"`)
			g.line(0, "")
			outer = g.b.String()
			g.b.Reset()
			g.line(0, fmt.Sprintf("Die Funktion %s macht:", f.name))
			g.roles["function: declared first, defined later"] = true
		} else {
			g.line(0, hdr+" macht:")
		}
		e := &genv{}
		for k := range f.params {
			p := f.params[k]
			pv := p
			pv.ro = f.frozen[k]
			e.push(&pv)
			if f.refs[k] {
				g.role(p.ty, "parameter-by-Referenz")
			} else {
				g.role(p.ty, "parameter-by-value")
			}
		}
		g.inFunc = f
		g.stmts = 0
		for s, n := 0, r.Range(1, 5); s < n; s++ {
			g.stmt(e, 1)
		}
		// a fresh local handed to an earlier function by value and by Referenz in the same call
		if r.Chance(0.5) {
			g.aliasCall(e, 1)
		}
		// one reference parameter assigned to another (or to an element of another): the caller may pass overlapping storage
		for i, pi := range f.params {
			for k, pk := range f.params {
				if i == k || !f.refs[i] || !f.refs[k] {
					continue
				}
				if pi.ty == pk.ty && !f.frozen[i] && r.Chance(0.5) {
					g.line(1, fmt.Sprintf("Speichere %s in %s.", pk.name, pi.name))
					g.role(pi.ty, "reference-parameter-assigned-to-reference-parameter")
				}
				if (pi.ty == tTL && pk.ty == tT || pi.ty == tSL && pk.ty == tS) && f.frozen[i] && r.Chance(0.8) {
					g.line(1, fmt.Sprintf("Wenn (die Länge von %s) größer als 0 ist, dann:", pi.name))
					g.line(2, fmt.Sprintf("Speichere %s in %s an der Stelle 1.", pk.name, pi.name))
					g.role(pi.ty, "reference-parameter-assigned-to-element-of-reference-parameter")
				}
			}
		}
		// mutate reference parameters (the callee writes through the reference)
		for k, p := range f.params {
			if f.refs[k] && !f.frozen[k] && r.Chance(0.7) {
				x, _ := g.expr(e, p.ty, 1)
				g.line(1, fmt.Sprintf("Speichere %s in %s.", x, p.name))
				g.role(p.ty, "written-through-Referenz")
			}
		}
		// ... and then still uses its by-value parameters
		for k, p := range f.params {
			if f.refs[k] {
				continue
			}
			// read-only uses that keep the parameter "constant" for the -O 2 copy elision: a bare variable handed to an
			// output function counts as possibly modified, an expression over it does not
			switch p.ty {
			case tT:
				g.line(1, fmt.Sprintf("Schreibe (%s verkettet mit \"\") auf eine Zeile.", p.name))
			case tZL:
				g.line(1, fmt.Sprintf("Schreibe (%s verkettet mit (eine leere Zahlen Liste)) auf eine Zeile.", p.name))
			case tTL:
				g.line(1, fmt.Sprintf("Schreibe (%s verkettet mit (eine leere Text Liste)) auf eine Zeile.", p.name))
			case tZ:
				g.line(1, fmt.Sprintf("Schreibe %s auf eine Zeile.", p.name))
			case tS:
				g.line(1, fmt.Sprintf("Schreibe (name von %s) auf eine Zeile.", p.name))
			case tSL:
				g.line(1, fmt.Sprintf("Schreibe (die Länge von %s) auf eine Zeile.", p.name))
			}
		}
		if f.hasRet {
			g.retStmt(e, f, 1)
		} else {
			g.printStmt(e, 1)
		}
		g.inFunc = nil
		if forward {
			g.line(0, "")
			later = append(later, g.b.String())
			g.b.Reset()
			g.b.WriteString(outer)
		} else {
			g.line(0, "Und kann so benutzt werden:")
			g.line(1, `"`+f.alias+`"`)
			g.line(0, "")
		}
		g.funcs = append(g.funcs, f)
	}
	// main
	e := &genv{}
	g.stmts = 0
	// a few globals of every heap type so that functions can be called
	for _, t := range heapTypes {
		if r.Chance(0.7) {
			x, n := g.literal(t, e, 1)
			v := &gvar{name: g.fresh("g"), ty: t, minLen: n}
			g.line(0, fmt.Sprintf("%s %s ist %s.", t.decl(), v.name, x))
			e.push(v)
			g.role(t, "global-variable")
		}
	}
	for s, n := 0, r.Range(4, 14); s < n; s++ {
		g.stmt(e, 0)
	}
	// observe the final state
	for _, v := range e.vars {
		switch v.ty {
		case tT, tZL, tTL, tZ:
			g.line(0, fmt.Sprintf("Schreibe %s auf eine Zeile.", v.name))
		case tS:
			g.line(0, fmt.Sprintf("Schreibe (name von %s) auf eine Zeile.", v.name))
		case tSL, tN:
			g.line(0, fmt.Sprintf("Schreibe (die Länge von %s) auf eine Zeile.", v.name))
		}
	}
	g.line(0, "")
	for _, d := range later {
		g.b.WriteString(d)
	}
	var roles []string
	for k := range g.roles {
		roles = append(roles, k)
	}
	return &HProg{Name: fmt.Sprintf("gen-own#%d", idx), Root: "prog.ddp", Files: map[string][]byte{"prog.ddp": []byte(g.b.String())}, Roles: roles, SelfContained: selfContained}
}
