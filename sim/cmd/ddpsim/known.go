package main

import (
	"encoding/json"
	"os"
	"path/filepath"
	"strings"
)

// KnownFinding identifies one recorded genuine defect.  A violation is suppressed only if its
// invariant matches and its signature matches Sig exactly (or by prefix when Sig ends in '*').
type KnownFinding struct {
	Property string `json:"property"`
	Inv      string `json:"inv"`
	Sig      string `json:"sig"`
	What     string `json:"what"`
	Replay   string `json:"replay"` // stored reproducer relative to /verif; re-run on every check
	// Scope "reproducer": the finding is the stored reproducer and nothing else — no violation met in a sweep is ever
	// matched against it (the workloads are generated so that they keep away from the construct).
	Scope string `json:"scope,omitempty"`
	// AllLevels: the reproducer fails at every optimisation level, so "fails under another level" is not a new violation
	AllLevels bool `json:"all_levels,omitempty"`
}

type KnownFile struct {
	Findings []KnownFinding `json:"findings"`
	Fixed    []string       `json:"fixed"`
}

func loadKnown() *KnownFile {
	k := &KnownFile{}
	b, err := os.ReadFile(filepath.Join(verifDir, "known_findings.json"))
	if err != nil {
		return k
	}
	if err := json.Unmarshal(b, k); err != nil {
		infra("known_findings.json does not parse: %v", err)
	}
	return k
}

func sigMatch(pattern, sig string) bool {
	if strings.HasSuffix(pattern, "*") {
		return strings.HasPrefix(sig, strings.TrimSuffix(pattern, "*"))
	}
	return pattern == sig
}

func (k *KnownFile) match(prop, inv, sig string) *KnownFinding {
	for i := range k.Findings {
		f := &k.Findings[i]
		if f.Scope != "reproducer" && f.Property == prop && f.Inv == inv && sigMatch(f.Sig, sig) {
			return f
		}
	}
	return nil
}
