#include <stdint.h>
int64_t helper_b(int64_t x) { return x * 10; }
