package main

import (
	"encoding/json"
	"os"
	"path/filepath"
	"time"
)

// Evidence is written by every check run (schema: /root/.vp/EVIDENCE.schema.json).
type Evidence struct {
	PropertyID  string         `json:"property_id"`
	Tier        string         `json:"tier"`
	Seed        int64          `json:"seed"`
	Level       string         `json:"level"`
	Coverage    map[string]any `json:"coverage"`
	Assumptions []string       `json:"assumptions"`
	WallS       float64        `json:"wall_s"`
	Violations  int            `json:"violations"`
}

func writeEvidence(ev *Evidence) {
	ev.WallS = time.Since(startT).Seconds()
	dir := filepath.Join(verifDir, "evidence")
	os.MkdirAll(dir, 0o755)
	b, _ := json.MarshalIndent(ev, "", " ")
	tmp := filepath.Join(dir, ev.PropertyID+".json.tmp")
	if err := os.WriteFile(tmp, append(b, '\n'), 0o644); err != nil {
		infra("cannot write evidence: %v", err)
	}
	os.Rename(tmp, filepath.Join(dir, ev.PropertyID+".json"))
}

func perHour(n int, d time.Duration) int {
	if d <= 0 {
		return 0
	}
	return int(float64(n) / d.Hours())
}
