package main

import (
	"crypto/sha256"
	"encoding/hex"
	"encoding/json"
	"fmt"
	"os"
	"path/filepath"
	"regexp"
	"sort"
	"strings"
	"time"

	"ddpsim/fwproto"
	"ddpsim/prng"
	"ddpsim/simdisk"
)

// C20: duplicate aliases are always rejected; declared aliases stay callable.
//   (i)  component level: sim/triesim — rapid state machine over the real alias store with the
//        real key predicates against a list model (operation-history exploration);
//   (ii) system level: generated module sets with colliding / non colliding aliases over
//        parameter types that print alike, parsed under permuted import, declaration and map
//        iteration orders.

const semAliasAlreadyDefined = 2008 // resolved from ddperror at run time, see aliasDupCode

type aliasSet struct {
	Tree      *simdisk.Tree
	Root      string
	ExpectDup bool
	Desc      string
	Calls     int
}

// genAliasSet builds a module set in which several functions share the alias pattern
// "zeige <p>" over parameter types that print alike but are distinct (same-named Kombinationen or
// Typdefinitionen of different modules) or are ordinary distinct types.
func genAliasSet(r *prng.R) *aliasSet {
	as := &aliasSet{Tree: &simdisk.Tree{Files: map[string][]byte{}}, Root: "haupt.ddp"}
	as.Tree.Files["aus.ddp"] = []byte(ausModule)
	pattern := prng.Pick(r, []string{"Zeige <p>", "Verarbeite <p>", "Nimm <p> und zeige es an", "Benutze <p> jetzt sofort"})
	useTypedef := r.Chance(0.35)
	typeName := prng.Pick(r, []string{"Punkt", "Ding", "Nummer", "Zzz", "Aaa"})
	nTwins := r.Range(2, 3) // modules declaring a same-named type
	type modInfo struct {
		name    string
		fn      string
		varName string
		isTwin  bool
		typ     string // printed parameter type
	}
	var mods []modInfo
	for i := 1; i <= nTwins; i++ {
		m := modInfo{name: fmt.Sprintf("t%d", i), fn: fmt.Sprintf("zeige_t%d", i), varName: fmt.Sprintf("wert_t%d", i), isTwin: true, typ: typeName}
		var b strings.Builder
		fmt.Fprintf(&b, "Binde \"aus\" ein.\n\n")
		if useTypedef {
			fmt.Fprintf(&b, "Wir definieren eine %s öffentlich als eine Zahl.\n\n", typeName)
			fmt.Fprintf(&b, "Die öffentliche %s %s ist %d als %s.\n\n", typeName, m.varName, i, typeName)
		} else {
			fmt.Fprintf(&b, "Wir nennen die öffentliche Kombination aus\n\tder öffentlichen Zahl x mit Standardwert %d,\neine %s, und erstellen sie so:\n\t\"eine neue %s aus t%d\"\n\n", i, typeName, typeName, i)
			fmt.Fprintf(&b, "Die öffentliche %s %s ist eine neue %s aus t%d.\n\n", typeName, m.varName, typeName, i)
		}
		fmt.Fprintf(&b, "Die öffentliche Funktion %s mit dem Parameter p vom Typ %s, gibt nichts zurück, macht:\n\tdrucke \"%s\".\nUnd kann so benutzt werden:\n\t\"%s\"\n", m.fn, typeName, m.fn, pattern)
		as.Tree.Files[m.name+".ddp"] = []byte(b.String())
		mods = append(mods, m)
	}
	// ordinary neighbours whose printed type name sorts before / after the twins
	others := []struct{ typ, lit string }{{"Kommazahl", "1,5"}, {"Text", "\"t\""}, {"Buchstabe", "'b'"}, {"Wahrheitswert", "wahr"}, {"Zahl", "7"}}
	nOther := r.Range(0, 3)
	perm := r.Perm(len(others))
	for i := 0; i < nOther; i++ {
		o := others[perm[i]]
		if useTypedef && o.typ == "Zahl" {
			continue
		}
		m := modInfo{name: fmt.Sprintf("o%d", i), fn: fmt.Sprintf("zeige_o%d", i), varName: fmt.Sprintf("wert_o%d", i), typ: o.typ}
		var b strings.Builder
		fmt.Fprintf(&b, "Binde \"aus\" ein.\n\n")
		art := "Die"
		if o.typ == "Text" || o.typ == "Buchstabe" || o.typ == "Wahrheitswert" {
			art = "Der"
		}
		fmt.Fprintf(&b, "%s öffentliche %s %s ist %s.\n\n", art, o.typ, m.varName, o.lit)
		fmt.Fprintf(&b, "Die öffentliche Funktion %s mit dem Parameter p vom Typ %s, gibt nichts zurück, macht:\n\tdrucke \"%s\".\nUnd kann so benutzt werden:\n\t\"%s\"\n", m.fn, o.typ, m.fn, pattern)
		as.Tree.Files[m.name+".ddp"] = []byte(b.String())
		mods = append(mods, m)
	}
	// the root: imports in a seeded order; the type itself is imported from exactly one twin
	typeFrom := r.Intn(nTwins)
	order := r.Perm(len(mods))
	var b strings.Builder
	fmt.Fprintf(&b, "Binde \"aus\" ein.\n")
	as.ExpectDup = r.Chance(0.5)
	ownDecl := func() {
		// the root's own function: a duplicate of the alias of twin typeFrom (same tokens, equal parameter type) or a new one
		if as.ExpectDup {
			fmt.Fprintf(&b, "\nDie Funktion zeige_haupt mit dem Parameter p vom Typ %s, gibt nichts zurück, macht:\n\tdrucke \"zeige_haupt\".\nUnd kann so benutzt werden:\n\t\"%s\"\n\n", typeName, pattern)
		} else {
			fmt.Fprintf(&b, "\nDie Funktion zeige_haupt mit dem Parameter p vom Typ Zahlen Liste, gibt nichts zurück, macht:\n\tdrucke \"zeige_haupt\".\nUnd kann so benutzt werden:\n\t\"%s\"\n\n", pattern)
		}
	}
	declAt := r.Range(1, len(order)) // after how many imports the own declaration comes (the type must be imported first)
	typeImported := false
	for k, mi := range order {
		m := mods[mi]
		if m.isTwin {
			if mi == typeFrom {
				fmt.Fprintf(&b, "Binde %s, %s und %s aus \"%s\" ein.\n", m.fn, m.varName, typeName, m.name)
				typeImported = true
			} else {
				fmt.Fprintf(&b, "Binde %s und %s aus \"%s\" ein.\n", m.fn, m.varName, m.name)
			}
		} else {
			fmt.Fprintf(&b, "Binde \"%s\" ein.\n", m.name)
		}
		if k+1 >= declAt && typeImported && declAt >= 0 {
			ownDecl()
			declAt = -1
		}
	}
	if declAt >= 0 {
		ownDecl()
	}
	// call sites after all declarations: every declared alias must resolve
	b.WriteString("\n")
	for _, m := range mods {
		call := strings.Replace(pattern, "<p>", m.varName, 1)
		fmt.Fprintf(&b, "%s.\n", call)
		as.Calls++
	}
	if !as.ExpectDup {
		fmt.Fprintf(&b, "%s.\n", strings.Replace(pattern, "<p>", "(eine Liste, die aus 1, 2 besteht)", 1))
		as.Calls++
	}
	as.Tree.Files["haupt.ddp"] = []byte(b.String())
	as.Desc = fmt.Sprintf("pattern %q, %d same-named %s (%s), %d other overloads, type imported from t%d, import order %v, duplicate=%t",
		pattern, nTwins, typeName, map[bool]string{true: "Typdefinition", false: "Kombination"}[useTypedef], nOther, typeFrom+1, order, as.ExpectDup)
	return as
}

// genAliasSetMixed: the colliding pattern belongs to declarations of different kinds — the constructor alias of a
// Kombination (own or imported), a function alias, a second Kombination — in seeded declaration / import order.
func genAliasSetMixed(r *prng.R) *aliasSet {
	as := &aliasSet{Tree: &simdisk.Tree{Files: map[string][]byte{}}, Root: "haupt.ddp"}
	as.Tree.Files["aus.ddp"] = []byte(ausModule)
	pattern := prng.Pick(r, []string{"ein Ding aus <x>", "Baue etwas aus <x> zusammen", "berechne etwas mit <x>"})
	as.ExpectDup = r.Chance(0.5)
	// the two contenders; each is a Kombination or a function, each own or imported
	type contender struct {
		kind     string // struct | func
		imported bool
		ptype    string
		name     string
	}
	ptypeA := prng.Pick(r, []string{"Zahl", "Text", "Kommazahl"})
	ptypeB := ptypeA
	if !as.ExpectDup {
		for ptypeB == ptypeA {
			ptypeB = prng.Pick(r, []string{"Zahl", "Text", "Kommazahl", "Buchstabe"})
		}
	}
	a := contender{kind: prng.Pick(r, []string{"struct", "struct", "func"}), imported: r.Bool(), ptype: ptypeA, name: "Erstes"}
	b := contender{kind: prng.Pick(r, []string{"struct", "func", "func"}), imported: r.Chance(0.3), ptype: ptypeB, name: "Zweites"}
	if a.imported && b.imported && r.Bool() {
		b.imported = false
	}
	art := func(t string) string {
		switch t {
		case "Text", "Buchstabe":
			return "dem"
		}
		return "der"
	}
	render := func(c contender, public bool) string {
		pub, pubf := "", ""
		if public {
			pub, pubf = "öffentliche ", "öffentlichen "
		}
		if c.kind == "struct" {
			return fmt.Sprintf("Wir nennen die %sKombination aus\n\t%s %s%s x mit Standardwert %s,\neine %s, und erstellen sie so:\n\t\"%s\"\n\n", pub, art(c.ptype), pubf, c.ptype, defaultLit(c.ptype), c.name, pattern)
		}
		return fmt.Sprintf("Die %sFunktion f_%s mit dem Parameter x vom Typ %s, gibt nichts zurück, macht:\n\tdrucke \"%s\".\nUnd kann so benutzt werden:\n\t\"%s\"\n\n", pub, c.name, c.ptype, c.name, pattern)
	}
	var root strings.Builder
	root.WriteString("Binde \"aus\" ein.\n")
	emit := func(c contender, file string) {
		if c.imported {
			as.Tree.Files[file+".ddp"] = []byte("Binde \"aus\" ein.\n\n" + render(c, true))
			fmt.Fprintf(&root, "Binde \"%s\" ein.\n", file)
		} else {
			root.WriteString("\n" + render(c, false))
		}
	}
	first, second := a, b
	if r.Bool() {
		first, second = b, a
	}
	emit(first, "m_"+strings.ToLower(first.name))
	emit(second, "m_"+strings.ToLower(second.name))
	if !as.ExpectDup {
		// both must be usable afterwards
		for _, c := range []contender{a, b} {
			use := strings.Replace(pattern, "<x>", defaultLit(c.ptype), 1)
			if c.kind == "struct" {
				fmt.Fprintf(&root, "Die Variable v_%s ist %s.\n", c.name, use)
			} else {
				// a statement that begins with a keyword has to be capitalised after a full stop
				if strings.HasPrefix(use, "ein ") {
					use = "Ein " + use[4:]
				}
				fmt.Fprintf(&root, "%s.\n", use)
			}
			as.Calls++
		}
	}
	as.Tree.Files["haupt.ddp"] = []byte(root.String())
	as.Desc = fmt.Sprintf("mixed kinds: pattern %q, first %s(%s, imported=%t), second %s(%s, imported=%t), duplicate=%t", pattern, first.kind, first.ptype, first.imported, second.kind, second.ptype, second.imported, as.ExpectDup)
	return as
}

// genAliasSetGeneric: aliases must stay callable from the body of a generic function that is instantiated after they
// were declared — also when the same generic function was instantiated before — and one declaration must not list the
// same alias twice.
func genAliasSetGeneric(r *prng.R) *aliasSet {
	as := &aliasSet{Tree: &simdisk.Tree{Files: map[string][]byte{}}, Root: "haupt.ddp"}
	as.Tree.Files["aus.ddp"] = []byte(ausModule)
	pattern := prng.Pick(r, []string{"berechne etwas mit <x>", "verarbeite <x> gründlich", "nimm <x> und zeige es"})
	fn := func(name, ptype, aliases string, public bool) string {
		pub := ""
		if public {
			pub = "öffentliche "
		}
		return fmt.Sprintf("Die %sFunktion f_%s mit dem Parameter x vom Typ %s, gibt nichts zurück, macht:\n\tdrucke \"%s\".\nUnd kann so benutzt werden:\n\t%s\n\n", pub, name, ptype, name, aliases)
	}
	var root strings.Builder
	root.WriteString("Binde \"aus\" ein.\n\n")
	if r.Chance(0.25) {
		// one declaration lists the same alias twice (or two aliases that differ in the parameter name only)
		as.ExpectDup = true
		second := pattern
		if r.Bool() {
			second = strings.Replace(pattern, "<x>", "<x>", 1)
		}
		other := "mache " + strings.Replace(pattern, "<x>", "<x>", 1)
		list := []string{`"` + pattern + `"`, `"` + second + `"`}
		if r.Bool() {
			list = []string{`"` + pattern + `"`, `"` + other + `"`, `"` + second + `"`}
		}
		root.WriteString(fn("Doppelt", prng.Pick(r, []string{"Zahl", "Text"}), strings.Join(list, " oder\n\t"), false))
		as.Tree.Files["haupt.ddp"] = []byte(root.String())
		as.Desc = fmt.Sprintf("one declaration lists the alias %q twice (%d aliases)", pattern, len(list))
		return as
	}
	types := []string{"Zahl", "Text", "Kommazahl", "Buchstabe"}
	p := r.Perm(len(types))
	ptypeA, ptypeB := types[p[0]], types[p[1]]
	as.ExpectDup = r.Chance(0.3)
	if as.ExpectDup {
		ptypeB = ptypeA
	}
	gen := fmt.Sprintf("Die generische Funktion Zeige mit dem Parameter a vom Typ T, gibt nichts zurück, macht:\n\t%s.\nUnd kann so benutzt werden:\n\t\"Zeige <a>\"\n\n", strings.Replace(pattern, "<x>", "a", 1))
	genImported := r.Chance(0.3)
	if genImported {
		as.Tree.Files["m_gen.ddp"] = []byte("Binde \"aus\" ein.\n\n" + strings.Replace(gen, "Die generische Funktion", "Die öffentliche generische Funktion", 1))
		root.WriteString("Binde \"m_gen\" ein.\n\n")
	} else {
		root.WriteString(gen)
	}
	root.WriteString(fn("Erstes", ptypeA, `"`+pattern+`"`, false))
	// first instantiation
	fmt.Fprintf(&root, "Zeige %s.\n\n", defaultLit(ptypeA))
	as.Calls++
	// declarations in between
	for k, n := 0, r.Intn(3); k < n; k++ {
		fmt.Fprintf(&root, "Die Zahl zwischen_%d ist %d.\n", k, k)
	}
	secondImported := r.Chance(0.3)
	if secondImported {
		as.Tree.Files["m_zweites.ddp"] = []byte("Binde \"aus\" ein.\n\n" + fn("Zweites", ptypeB, `"`+pattern+`"`, true))
		root.WriteString("Binde \"m_zweites\" ein.\n\n")
	} else {
		root.WriteString(fn("Zweites", ptypeB, `"`+pattern+`"`, false))
	}
	if !as.ExpectDup {
		// callable directly and from a new instantiation of the generic function
		fmt.Fprintf(&root, "%s.\n", strings.Replace(pattern, "<x>", defaultLit(ptypeB), 1))
		fmt.Fprintf(&root, "Zeige %s.\n", defaultLit(ptypeB))
		fmt.Fprintf(&root, "Zeige %s.\n", defaultLit(ptypeA))
		as.Calls += 3
	}
	as.Tree.Files["haupt.ddp"] = []byte(root.String())
	as.Desc = fmt.Sprintf("generic caller: pattern %q, first %s, second %s (imported=%t), generic imported=%t, duplicate=%t", pattern, ptypeA, ptypeB, secondImported, genImported, as.ExpectDup)
	return as
}

// genAliasSetSiblings: aliases that share a prefix and continue once with a parameter and once with a literal token
// ("die Bilanz <a> <b>", "die Bilanz <a> - <b>"): at the call site the parameter alternative may not be able to take
// the tokens that follow ("- (1 plus 2)" is no single argument) while the literal alternative can — every alias must
// stay callable with every form of argument, whatever else is declared.
func genAliasSetSiblings(r *prng.R) *aliasSet {
	as := &aliasSet{Tree: &simdisk.Tree{Files: map[string][]byte{}}, Root: "haupt.ddp"}
	as.Tree.Files["aus.ddp"] = []byte(ausModule)
	prefix := prng.Pick(r, []string{"die Bilanz", "der Saldo von", "verrechne"})
	seps := []string{"", "-", "und", "-"}
	p := r.Perm(len(seps))
	n := r.Range(2, 3)
	type variant struct{ name, alias, sep string }
	var vs []variant
	seen := map[string]bool{}
	for _, k := range p {
		if len(vs) == n || seen[seps[k]] {
			continue
		}
		seen[seps[k]] = true
		sep := seps[k]
		alias := prefix + " <a> <b>"
		if sep != "" {
			alias = prefix + " <a> " + sep + " <b>"
		}
		vs = append(vs, variant{fmt.Sprintf("v%d", len(vs)), alias, sep})
	}
	as.ExpectDup = r.Chance(0.2)
	fn := func(v variant, name string, public bool) string {
		pub := ""
		if public {
			pub = "öffentliche "
		}
		return fmt.Sprintf("Die %sFunktion f_%s mit den Parametern a und b vom Typ Zahl und Zahl, gibt eine Zahl zurück, macht:\n\tGib a plus b zurück.\nUnd kann so benutzt werden:\n\t\"%s\"\n\n", pub, name, v.alias)
	}
	var root strings.Builder
	root.WriteString("Binde \"aus\" ein.\n\n")
	for i, v := range vs {
		if r.Chance(0.3) {
			file := fmt.Sprintf("m_%s", v.name)
			as.Tree.Files[file+".ddp"] = []byte("Binde \"aus\" ein.\n\n" + fn(v, v.name, true))
			fmt.Fprintf(&root, "Binde \"%s\" ein.\n\n", file)
		} else {
			root.WriteString(fn(v, v.name, false))
		}
		if as.ExpectDup && i == 0 {
			root.WriteString(fn(v, v.name+"_nochmal", false))
		}
	}
	if !as.ExpectDup {
		root.WriteString("Die Zahl x ist 4.\n")
		args := []string{"10", "x", "-3", "(1 plus 2)", "(x mal 2)", "-x"}
		k := 0
		for _, v := range vs {
			for c := 0; c < 3; c++ {
				a, b := prng.Pick(r, args[:2]), prng.Pick(r, args)
				if c == 0 {
					b = "(1 plus 2)" // the form a parameter can never take after a literal "-"
				}
				call := prefix + " " + a + " " + b
				if v.sep != "" {
					call = prefix + " " + a + " " + v.sep + " " + b
				}
				fmt.Fprintf(&root, "Die Zahl e%d ist %s.\n", k, call)
				k++
				as.Calls++
			}
		}
	}
	as.Tree.Files["haupt.ddp"] = []byte(root.String())
	var al []string
	for _, v := range vs {
		al = append(al, v.alias)
	}
	as.Desc = fmt.Sprintf("sibling continuations: %q, duplicate=%t", al, as.ExpectDup)
	return as
}

func defaultLit(t string) string {
	switch t {
	case "Text":
		return "\"t\""
	case "Kommazahl":
		return "1,5"
	case "Buchstabe":
		return "'b'"
	}
	return "7"
}

var reRapidFail = regexp.MustCompile(`-rapid\.failfile="([^"]+)"`)
var reRapidMsg = regexp.MustCompile(`\[rapid\] failed after \d+ tests: (.*)`)

func triesimClass(msg string) string {
	switch {
	case strings.Contains(msg, "no longer found by Contains"):
		return "lost-by-Contains"
	case strings.Contains(msg, "duplicate check"):
		return "duplicate-check"
	case strings.Contains(msg, "not found by Search"):
		return "lost-by-Search"
	case strings.Contains(msg, "Search("):
		return "search-mismatch"
	case strings.Contains(msg, "Contains("):
		return "contains-mismatch"
	}
	return "other"
}

type c20Replay struct {
	Property string       `json:"property"`
	Engine   string       `json:"engine"`
	Seed     uint64       `json:"seed"`
	Inv      string       `json:"inv"`
	Sig      string       `json:"sig"`
	Detail   string       `json:"detail"`
	FailFile string       `json:"rapid_failfile,omitempty"` // content of the rapid .fail file
	Job      *fwproto.Job `json:"job,omitempty"`            // system level
	Expect   string       `json:"expect,omitempty"`
}

func runTriesim(checks int, failfileContent string) (ok bool, out string, stats map[string]any) {
	ov, err := buildOverlay()
	if err != nil {
		infra("%v", err)
	}
	statsPath := filepath.Join(workRoot, "triesim-stats.json")
	args := []string{"test", "-overlay", ov, "-tags", "verifsim", "-vet=off", "-count=1", "-timeout", "6h", "./triesim", "-run", "TestTrieModel"}
	if failfileContent != "" {
		ff := filepath.Join(workRoot, "replay.fail")
		os.WriteFile(ff, []byte(failfileContent), 0o644)
		args = append(args, "-rapid.failfile="+ff)
	} else {
		args = append(args, fmt.Sprintf("-rapid.checks=%d", checks), fmt.Sprintf("-rapid.seed=%d", seed), "-rapid.steps=30")
	}
	cmdEnv := append(goEnv(), "TRIESIM_STATS="+statsPath)
	// rapid writes its .fail file relative to the package directory; keep /verif/sim clean afterwards
	defer os.RemoveAll(filepath.Join(simDir, "triesim", "testdata"))
	o, err := goToolEnv(cmdEnv, args...)
	stats = map[string]any{}
	if b, rerr := os.ReadFile(statsPath); rerr == nil {
		json.Unmarshal(b, &stats)
	}
	if err == nil {
		return true, o, stats
	}
	if !strings.Contains(o, "[rapid] failed") && !strings.Contains(o, "--- FAIL") {
		infra("triesim did not build or run:\n%s", o)
	}
	return false, o, stats
}

func checkC20(tier string) int {
	thorough := tier == "thorough"
	checks := 20000
	if thorough {
		checks = 1500000
	}
	t0 := time.Now()
	ok, out, stats := runTriesim(checks, "")
	wallI := time.Since(t0)
	known := loadKnown()
	newViol := 0
	groups := 0
	os.MkdirAll(filepath.Join(verifDir, "replays"), 0o755)
	if !ok {
		groups++
		msg := ""
		if m := reRapidMsg.FindStringSubmatch(out); m != nil {
			msg = m[1]
		}
		sig := "trie|" + triesimClass(msg)
		inv := "C20.model"
		if known.match("C20", inv, sig) == nil {
			newViol++
			rp := &c20Replay{Property: "C20", Engine: "triesim", Seed: seed, Inv: inv, Sig: sig, Detail: msg}
			if m := reRapidFail.FindStringSubmatch(out); m != nil {
				if b, err := os.ReadFile(filepath.Join(simDir, "triesim", m[1])); err == nil {
					rp.FailFile = string(b)
				}
			}
			path := filepath.Join(verifDir, "replays", fmt.Sprintf("C20-trie-seed%d.json", seed))
			b, _ := json.MarshalIndent(rp, "", " ")
			os.WriteFile(path, b, 0o644)
			fmt.Printf("VIOLATION property=C20 replay=%s\n  %s %q (minimised by rapid)\n  %s\n", path, inv, sig, msg)
		}
	}

	// (ii) system level under permuted orders
	bin, err := buildFrontw(true)
	if err != nil {
		infra("%v", err)
	}
	nSets := 300
	if thorough {
		nSets = 8000
	}
	var jobs []fwproto.Job
	var sets []*aliasSet
	for n := 0; n < nSets; n++ {
		r := prng.Stream(seed, "c20", "aliasset", n)
		as := genAliasSet(r)
		if n%3 == 2 {
			as = genAliasSetMixed(r)
		}
		if n%6 == 4 {
			as = genAliasSetGeneric(r)
		}
		if n%6 == 1 {
			as = genAliasSetSiblings(r)
		}
		j := fwproto.Job{ID: n, Tree: as.Tree, Root: as.Root, Source: true}
		j.Steps = []fwproto.Step{{Fresh: true}}
		for _, s := range orderSpecs(r, false)[:8] {
			j.Steps = append(j.Steps, fwproto.Step{Fresh: true, Order: s})
		}
		jobs = append(jobs, j)
		sets = append(sets, as)
	}
	pool := &Pool{Bin: bin, Env: []string{"DDPPATH=" + filepath.Join(repoRoot(), "lib/stdlib")}, Workers: nWorkers, WorkRoot: workRoot, Stage1: 120 * time.Second, ASLimit: 8192}
	t1 := time.Now()
	results, err := pool.Run(jobs, nil)
	if err != nil {
		infra("%v", err)
	}
	wallII := time.Since(t1)
	dupCode, takenCode := aliasDupCode(), aliasTakenCode()
	sysCalls, dupSets, okSets, genBad := 0, 0, 0, 0
	shapes := map[string]bool{}
	type sysViol struct {
		sig, detail string
		job, step   int
	}
	sysGroups := map[string]*sysViol{}
	var sysSamples []any
	evHash := sha256.New()
	for i := range results {
		r := &results[i]
		as := sets[i]
		if r.Infra != "" {
			infra("run %d: %s", i, r.Infra)
		}
		if r.Died != "" || len(r.Calls) == 0 {
			continue // C03's business
		}
		if as.ExpectDup {
			dupSets++
		} else {
			okSets++
		}
		for s := range r.Calls {
			c := &r.Calls[s]
			sysCalls++
			nDup, nErr := 0, 0
			var firstErr fwproto.Diag
			for _, d := range c.Diags {
				if d.Level == 2 {
					if nErr == 0 {
						firstErr = d
					}
					nErr++
					if d.Code == dupCode || d.Code == takenCode {
						nDup++
					}
				}
			}
			fmt.Fprintf(evHash, "%d/%d dup=%d err=%d\n", i, s, nDup, nErr)
			sig, detail := "", ""
			switch {
			case as.ExpectDup && nDup == 0:
				sig = "sys|duplicate-not-rejected"
				detail = fmt.Sprintf("a duplicate alias (same tokens, equal parameter type) was declared but no SEM_ALIAS_ALREADY_DEFINED diagnostic was delivered (%d other errors)", nErr)
			case !as.ExpectDup && nDup > 0:
				sig = "sys|spurious-duplicate"
				detail = "no duplicate alias was declared but SEM_ALIAS_ALREADY_DEFINED was reported"
			case !as.ExpectDup && nErr > 0:
				if s == 0 {
					genBad++ // the generator's own fault if the identity order already rejects it for another reason
				}
				sig = fmt.Sprintf("sys|alias-not-callable|%d", firstErr.Code)
				detail = fmt.Sprintf("all aliases are distinct, yet a call site does not resolve: (%d) %s @%v", firstErr.Code, firstErr.Msg, firstErr.Range)
			}
			shapes[fmt.Sprintf("%s|%d|%d", as.Desc, nDup, nErr)] = true
			if sig != "" {
				if _, ok := sysGroups[sig]; !ok {
					sysGroups[sig] = &sysViol{sig, detail + "\n  " + as.Desc + fmt.Sprintf("\n  step %d", s), i, s}
				}
			}
		}
		if len(sysSamples) < 3 && i%(len(results)/3+1) == 1 {
			sysSamples = append(sysSamples, map[string]any{"set": as.Desc, "root": string(as.Tree.Files["haupt.ddp"])})
		}
	}
	if genBad*5 > okSets && okSets > 0 {
		// more than 20 % of the duplicate-free sets rejected under the identity order: generator or pinned-tree issue, look before trusting
		logf("note: %d of %d duplicate-free alias sets are rejected under the identity order", genBad, okSets)
	}
	keys := make([]string, 0, len(sysGroups))
	for k := range sysGroups {
		keys = append(keys, k)
	}
	sort.Strings(keys)
	for _, k := range keys {
		groups++
		v := sysGroups[k]
		inv := "C20.system"
		if known.match("C20", inv, v.sig) != nil {
			continue
		}
		newViol++
		j := jobs[v.job]
		j.Steps = []fwproto.Step{j.Steps[v.step]}
		rp := &c20Replay{Property: "C20", Engine: "c20sys", Seed: seed, Inv: inv, Sig: v.sig, Detail: v.detail, Job: &j, Expect: map[bool]string{true: "dup", false: "nodup"}[sets[v.job].ExpectDup]}
		path := filepath.Join(verifDir, "replays", fmt.Sprintf("C20-sys-seed%d-%s.json", seed, shortHash(v.sig)))
		b, _ := json.MarshalIndent(rp, "", " ")
		os.WriteFile(path, b, 0o644)
		fmt.Printf("VIOLATION property=C20 replay=%s\n  %s %q\n  %s\n", path, inv, v.sig, firstLines(v.detail, 6))
	}
	for _, kf := range known.Findings {
		if kf.Property != "C20" || kf.Replay == "" {
			continue
		}
		if replayC20Stored(filepath.Join(verifDir, kf.Replay)) {
			fmt.Printf("KNOWN-FINDING: property=C20 %s (reproducer %s still fails)\n", kf.What, kf.Replay)
		}
	}
	hist, _ := stats["histories"].(float64)
	opsN, _ := stats["operations"].(float64)
	shp, _ := stats["distinct_shapes"].(float64)
	samples := []any{}
	if ss, ok := stats["samples"].([]any); ok {
		for _, s := range ss {
			samples = append(samples, map[string]any{"level": "component", "history": s})
		}
	}
	samples = append(samples, sysSamples...)
	if len(samples) == 0 {
		samples = append(samples, "no history completed: the first one already failed")
	}
	ev := &Evidence{PropertyID: "C20", Tier: tier, Seed: int64(seed), Level: "exploration", Violations: newViol}
	ev.Coverage = map[string]any{
		"evaluations":         int(hist) + sysCalls,
		"distinct_nontrivial": int(shp) + len(shapes),
		"rule": "component level: one evaluation = one rapid-generated history (<= 30 operations: insert / contains / search / copy) on alias_trie.Trie[*token.Token,*int] with the parser's real tokenEqual/tokenLess, checked against a list model after every operation; distinct = distinct final key populations. " +
			"system level: one evaluation = one Parse of a generated module set (several overloads of one alias pattern over parameter types that print alike) under one import/declaration/map-iteration order; distinct = distinct (set description, outcome)",
		"samples":                            samples,
		"component_histories":                int(hist),
		"component_operations":               int(opsN),
		"component_distinct_populations":     int(shp),
		"vocabulary_tokens":                  stats["vocabulary"],
		"vocabulary_unordered_unequal_pairs": stats["unordered_unequal_pairs"],
		"system_sets":                        nSets,
		"system_calls":                       sysCalls,
		"system_sets_with_duplicate":         dupSets,
		"system_sets_without_duplicate":      okSets,
		"runs_per_hour":                      perHour(int(hist), wallI) + perHour(sysCalls, wallII),
		"seeds_per_hour":                     perHour(1, time.Since(startT)),
		"simulated_time_s":                   0,
		"simulated_time_note":                "no clock is involved; the explored dimension is the order of operations reaching the alias store",
		"event_log_sha256":                   hex.EncodeToString(evHash.Sum(nil)),
		"violation_groups":                   groups,
		"components_real":                    []string{"src/parser/alias_trie", "src/parser/ordered_map", "parser.tokenEqual / parser.tokenLess (exported by an overlay-added file)", "whole frontend (system level)"},
		"components_simulated":               []string{"the history of operations (rapid state machine)", "Go map iteration order (system level)"},
		"exhaustive":                         false,
	}
	ev.Assumptions = []string{"the reference model is a plain list with key equality = pairwise tokenEqual", "rapid v1.3.0 is the sole source of choice at component level (-rapid.seed = VERIF_SEED)"}
	writeEvidence(ev)
	logf("C20 done: %d histories (%d ops), %d system calls, %d violation groups (%d new)", int(hist), int(opsN), sysCalls, groups, newViol)
	if newViol > 0 {
		return 1
	}
	return 0
}

// aliasDupCode: the numeric value of ddperror.SEM_ALIAS_ALREADY_DEFINED is read from the repository source,
// so that the check follows a renumbering.
func aliasDupCode() int { return errCode("SEM_ALIAS_ALREADY_DEFINED", semAliasAlreadyDefined) }

// the code used when the file's own declaration repeats an alias
func aliasTakenCode() int { return errCode("SEM_ALIAS_ALREADY_TAKEN", semAliasAlreadyDefined-1) }

func errCode(want string, def int) int {
	b, err := os.ReadFile(filepath.Join(repoRoot(), "src/ddperror/code.go"))
	if err != nil {
		b, _ = os.ReadFile(filepath.Join(repoRoot(), "src/ddperror/codes.go"))
	}
	// codes are declared as iota blocks starting at a base; evaluate by scanning
	base, cur := -1, 0
	for _, l := range strings.Split(string(b), "\n") {
		l = strings.TrimSpace(l)
		if i := strings.Index(l, "//"); i >= 0 {
			l = strings.TrimSpace(l[:i])
		}
		if l == "" {
			continue
		}
		var name string
		var n int
		if k, _ := fmt.Sscanf(l, "%s Code = iota + %d", &name, &n); k == 2 {
			base, cur = n, n
		} else if base >= 0 {
			f := strings.Fields(l)
			if len(f) == 0 || f[0] == ")" || f[0] == "const" || f[0] == "(" {
				if len(f) > 0 && f[0] == ")" {
					base = -1
				}
				continue
			}
			cur++
			name = f[0]
		}
		if name == want {
			return cur
		}
	}
	return def
}

func replayC20Stored(path string) bool {
	b, err := os.ReadFile(path)
	if err != nil {
		infra("cannot read %s: %v", path, err)
	}
	var rp c20Replay
	if err := json.Unmarshal(b, &rp); err != nil {
		infra("replay file %s does not parse: %v", path, err)
	}
	switch rp.Engine {
	case "triesim":
		ok, out, _ := runTriesim(0, rp.FailFile)
		if ok {
			return false
		}
		msg := ""
		if m := reRapidMsg.FindStringSubmatch(out); m != nil {
			msg = m[1]
		} else if i := strings.Index(out, "trie_test.go"); i >= 0 {
			msg = out[i:]
		}
		return "trie|"+triesimClass(msg) == rp.Sig || strings.Contains(out, "--- FAIL")
	case "c20sys":
		bin, err := buildFrontw(true)
		if err != nil {
			infra("%v", err)
		}
		pool := &Pool{Bin: bin, Env: []string{"DDPPATH=" + filepath.Join(repoRoot(), "lib/stdlib")}, Workers: 1, WorkRoot: workRoot, Stage1: 120 * time.Second}
		r := pool.RunIsolated(rp.Job, 0)
		if len(r.Calls) == 0 {
			return false
		}
		dup, taken := aliasDupCode(), aliasTakenCode()
		nDup, nErr := 0, 0
		for _, d := range r.Calls[0].Diags {
			if d.Level == 2 {
				nErr++
				if d.Code == dup || d.Code == taken {
					nDup++
				}
			}
		}
		switch {
		case strings.HasPrefix(rp.Sig, "sys|duplicate-not-rejected"):
			return nDup == 0
		case strings.HasPrefix(rp.Sig, "sys|spurious-duplicate"):
			return nDup > 0
		default:
			return nErr > 0
		}
	}
	return false
}
