package main

import (
	"crypto/sha256"
	"encoding/hex"
	"fmt"
	"io"
	"os"
	"os/exec"
	"path/filepath"
	"sort"
	"strings"
	"sync"
	"time"
)

// Toolchain is a DDP installation built from /repo's current working tree into the cache:
// kddp (stock and, on demand, map-order instrumented), runtime, stdlib, list definitions, Duden.
type Toolchain struct {
	Dir      string // DDPPATH
	Kddp     string
	KddpOrd  string
	SimHeapO string
	Skipped  []string // stdlib C files that do not build in this image (external sources absent)
}

func treeHash() string {
	h := sha256.New()
	repo := repoRoot()
	var files []string
	for _, d := range []string{"src", "cmd", "lib/runtime", "lib/stdlib"} {
		filepath.WalkDir(filepath.Join(repo, d), func(p string, e os.DirEntry, err error) error {
			if err != nil {
				return nil
			}
			if e.IsDir() {
				if e.Name() == ".git" || e.Name() == "llvm" && strings.Contains(p, "bindings") {
					return nil
				}
				return nil
			}
			switch filepath.Ext(p) {
			case ".go", ".c", ".h", ".ddp", ".cpp", ".mod", ".sum":
				files = append(files, p)
			}
			return nil
		})
	}
	files = append(files, filepath.Join(repo, "go.mod"), filepath.Join(repo, "go.sum"))
	sort.Strings(files)
	for _, f := range files {
		b, err := os.ReadFile(f)
		if err != nil {
			continue
		}
		fmt.Fprintf(h, "%s\x00%d\x00", strings.TrimPrefix(f, repo), len(b))
		h.Write(b)
	}
	// the simulator's own seam sources are part of what is built
	for _, f := range []string{"c/simheap.c", "verifsim_tmpl/verifsim.go.txt", "rewriter/main.go"} {
		if b, err := os.ReadFile(filepath.Join(simDir, f)); err == nil {
			h.Write(b)
		}
	}
	return hex.EncodeToString(h.Sum(nil))[:16]
}

func llvmConfig(args ...string) string {
	out, err := exec.Command("llvm-config-14", args...).Output()
	if err != nil {
		infra("llvm-config-14 %v: %v", args, err)
	}
	return strings.Join(strings.Fields(string(out)), " ")
}

func cgoEnv() []string {
	env := goEnv()
	env = append(env,
		"CGO_ENABLED=1",
		"CGO_CPPFLAGS="+llvmConfig("--cppflags"),
		"CGO_CXXFLAGS=-std=c++14",
		"CGO_LDFLAGS="+llvmConfig("--ldflags", "--libs", "--system-libs", "all"),
	)
	return env
}

func copyFile(src, dst string) error {
	in, err := os.Open(src)
	if err != nil {
		return err
	}
	defer in.Close()
	os.MkdirAll(filepath.Dir(dst), 0o755)
	out, err := os.Create(dst)
	if err != nil {
		return err
	}
	defer out.Close()
	_, err = io.Copy(out, in)
	return err
}

func copyTree(src, dst string, filter func(string) bool) error {
	return filepath.WalkDir(src, func(p string, e os.DirEntry, err error) error {
		if err != nil {
			return err
		}
		rel, _ := filepath.Rel(src, p)
		if e.IsDir() {
			return os.MkdirAll(filepath.Join(dst, rel), 0o755)
		}
		if filter != nil && !filter(p) {
			return nil
		}
		return copyFile(p, filepath.Join(dst, rel))
	})
}

// compileC compiles all .c files in parallel; returns objects and the sources that failed.
func compileC(srcs []string, objDir string, flags []string) (objs []string, failed map[string]string) {
	os.MkdirAll(objDir, 0o755)
	failed = map[string]string{}
	var mu sync.Mutex
	var wg sync.WaitGroup
	sem := make(chan struct{}, nWorkers)
	for _, s := range srcs {
		wg.Add(1)
		go func(s string) {
			defer wg.Done()
			sem <- struct{}{}
			defer func() { <-sem }()
			o := filepath.Join(objDir, strings.TrimSuffix(filepath.Base(s), ".c")+".o")
			args := append(append([]string{}, flags...), "-o", o, s)
			out, err := exec.Command("gcc", args...).CombinedOutput()
			mu.Lock()
			defer mu.Unlock()
			if err != nil {
				failed[s] = string(out)
			} else {
				objs = append(objs, o)
			}
		}(s)
	}
	wg.Wait()
	sort.Strings(objs)
	return
}

func globC(dir string) []string {
	a, _ := filepath.Glob(filepath.Join(dir, "*.c"))
	b, _ := filepath.Glob(filepath.Join(dir, "*", "*.c"))
	out := append(a, b...)
	sort.Strings(out)
	return out
}

var tcOnce sync.Once
var tcCached *Toolchain

// buildToolchain builds (or reuses) the DDP installation for /repo's current tree.
func buildToolchain() *Toolchain {
	tcOnce.Do(func() { tcCached = buildToolchainLocked() })
	return tcCached
}

func buildToolchainLocked() *Toolchain {
	hash := treeHash()
	root := filepath.Join(cacheDir, "tc-"+hash)
	tc := &Toolchain{Dir: filepath.Join(root, "DDP")}
	tc.Kddp = filepath.Join(tc.Dir, "bin", "kddp")
	tc.KddpOrd = filepath.Join(tc.Dir, "bin", "kddp-ord")
	tc.SimHeapO = filepath.Join(root, "simheap.o")
	stamp := filepath.Join(root, "OK")
	if b, err := os.ReadFile(stamp); err == nil {
		tc.Skipped = strings.Fields(string(b))
		return tc
	}
	// drop older toolchains (disk is limited), then build
	old, _ := filepath.Glob(filepath.Join(cacheDir, "tc-*"))
	for _, o := range old {
		os.RemoveAll(o)
	}
	t0 := time.Now()
	repo := repoRoot()
	lib := filepath.Join(tc.Dir, "lib")
	os.MkdirAll(filepath.Join(tc.Dir, "bin"), 0o755)
	os.MkdirAll(lib, 0o755)

	var wg sync.WaitGroup
	var kddpErr string
	wg.Add(1)
	go func() { // kddp (cgo, LLVM 14)
		defer wg.Done()
		out, err := run(repo, cgoEnv(), goBin, "build", "-tags", "byollvm", "-o", tc.Kddp, "./cmd/kddp")
		if err != nil {
			kddpErr = out
		}
	}()

	// runtime
	rtInc := "-I" + filepath.Join(repo, "lib/runtime/include")
	rtFlags := []string{"-c", "-Wall", "-Wextra", "-Wno-format", "-O2", "-std=c11", "-pedantic", "-D_POSIX_C_SOURCE=200809L", rtInc}
	rtObjs, rtFailed := compileC(globC(filepath.Join(repo, "lib/runtime/source/DDP")), filepath.Join(root, "obj/runtime"), rtFlags)
	if len(rtFailed) > 0 {
		for s, o := range rtFailed {
			infra("runtime source %s does not compile:\n%s", s, o)
		}
	}
	if out, err := exec.Command("ar", append([]string{"rcs", filepath.Join(lib, "libddpruntime.a")}, rtObjs...)...).CombinedOutput(); err != nil {
		infra("ar runtime: %s", out)
	}
	if out, err := exec.Command("gcc", append(append([]string{}, rtFlags...), "-o", filepath.Join(lib, "main.o"), filepath.Join(repo, "lib/runtime/source/main.c"))...).CombinedOutput(); err != nil {
		infra("main.o: %s", out)
	}
	// stdlib (files that need the absent external sources are skipped and listed)
	stdFlags := []string{"-c", "-Wall", "-Wno-format", "-O2", "-std=c11", "-pedantic", "-D_POSIX_C_SOURCE=200809L",
		"-I" + filepath.Join(repo, "lib/stdlib/include"), rtInc}
	stdObjs, stdFailed := compileC(globC(filepath.Join(repo, "lib/stdlib/source/DDP")), filepath.Join(root, "obj/stdlib"), stdFlags)
	for s, o := range stdFailed {
		if strings.Contains(o, "pcre2.h") || strings.Contains(o, "archive.h") || strings.Contains(o, "archive_entry.h") {
			tc.Skipped = append(tc.Skipped, filepath.Base(s))
			continue
		}
		infra("stdlib source %s does not compile:\n%s", s, o)
	}
	sort.Strings(tc.Skipped)
	if out, err := exec.Command("ar", append([]string{"rcs", filepath.Join(lib, "libddpstdlib.a")}, stdObjs...)...).CombinedOutput(); err != nil {
		infra("ar stdlib: %s", out)
	}
	// empty stub archives for the external libraries the linker always names
	for _, a := range []string{"libpcre2-8.a", "libarchive.a", "libz.a", "liblzma.a", "libbz2.a", "liblz4.a"} {
		p := filepath.Join(lib, a)
		os.Remove(p)
		if out, err := exec.Command("ar", "rcs", p).CombinedOutput(); err != nil {
			infra("stub archive: %s", out)
		}
	}
	// headers and Duden
	copyTree(filepath.Join(repo, "lib/runtime/include"), filepath.Join(lib, "runtime/include"), nil)
	copyTree(filepath.Join(repo, "lib/stdlib/include"), filepath.Join(lib, "stdlib/include"), nil)
	copyTree(filepath.Join(repo, "lib/stdlib/Duden"), filepath.Join(tc.Dir, "Duden"), nil)
	// the simulated heap
	if _, err := os.Stat(filepath.Join(simDir, "c", "simheap.c")); err == nil {
		if out, err := exec.Command("gcc", "-c", "-O1", "-g", "-Wall", "-std=gnu11", "-o", tc.SimHeapO, filepath.Join(simDir, "c", "simheap.c")).CombinedOutput(); err != nil {
			infra("simheap.c: %s", out)
		}
	}
	wg.Wait()
	if kddpErr != "" {
		infra("building kddp from %s failed:\n%s", repo, kddpErr)
	}
	// list definitions
	cmd := exec.Command(tc.Kddp, "dump-list-defs", "-o", filepath.Join(lib, "ddp_list_types_defs"), "--llvm-ir", "--object")
	cmd.Env = append(os.Environ(), "DDPPATH="+tc.Dir)
	if out, err := cmd.CombinedOutput(); err != nil {
		infra("kddp dump-list-defs: %v\n%s", err, out)
	}
	os.WriteFile(stamp, []byte(strings.Join(tc.Skipped, " ")), 0o644)
	logf("built toolchain %s in %.1fs (stdlib files skipped: %v)", hash, time.Since(t0).Seconds(), tc.Skipped)
	return tc
}
