package main

import (
	"encoding/json"
	"fmt"
	"os"
	"path/filepath"
	"sync"
	"time"
)

// OrderSite is one instrumented map iteration of the repository.
type OrderSite struct {
	Site    string `json:"site"`
	Kind    string `json:"kind"`
	KeyType string `json:"key_type"`
	Func    string `json:"func"`
}

var (
	ovOnce  sync.Once
	ovPath  string
	ovErr   error
	ovSites []OrderSite
)

// buildOverlay generates the map-order seam for /repo's current tree (sim/rewriter) and returns
// the overlay.json path for `go build -overlay`.
func buildOverlay() (string, error) {
	ovOnce.Do(func() {
		hash := treeHash()
		dir := filepath.Join(cacheDir, "ov-"+hash)
		ovPath = filepath.Join(dir, "overlay.json")
		if _, err := os.Stat(filepath.Join(dir, "OK")); err != nil {
			old, _ := filepath.Glob(filepath.Join(cacheDir, "ov-*"))
			for _, o := range old {
				os.RemoveAll(o)
			}
			t0 := time.Now()
			rw := filepath.Join(cacheDir, "rewriter")
			if out, err := goTool("build", "-o", rw, "./rewriter"); err != nil {
				ovErr = fmt.Errorf("building the rewriter failed:\n%s", out)
				return
			}
			out, err := run(repoRoot(), cgoEnv(), rw, "-repo", repoRoot(), "-out", dir, "-tmpl", filepath.Join(simDir, "verifsim_tmpl", "verifsim.go.txt"))
			if err != nil {
				ovErr = fmt.Errorf("rewriter failed:\n%s", out)
				return
			}
			os.WriteFile(filepath.Join(dir, "OK"), []byte(out), 0o644)
			logf("%s (%.1fs)", firstLines(out, 1), time.Since(t0).Seconds())
		}
		b, err := os.ReadFile(filepath.Join(dir, "sites.json"))
		if err == nil {
			json.Unmarshal(b, &ovSites)
		}
	})
	return ovPath, ovErr
}
