package main

import (
	"bufio"
	"bytes"
	"encoding/json"
	"fmt"
	"os"
	"os/exec"
	"path/filepath"
	"regexp"
	"strings"
	"sync"
	"time"

	"ddpsim/prng"
)

// Level B of ordersim: the whole compiler (`kddp-ord`, built with the map-order overlay) in fresh
// processes under VERIF_ORDER, followed by execution of the produced program.

type levelBInfo struct {
	runs     int
	wall     time.Duration
	replays  map[string]string
	siteMaxN map[string]int
}

var kddpOrdOnce sync.Once

func buildKddpOrd(tc *Toolchain) {
	kddpOrdOnce.Do(func() {
		if _, err := os.Stat(tc.KddpOrd); err == nil {
			return
		}
		ov, err := buildOverlay()
		if err != nil {
			infra("%v", err)
		}
		t0 := time.Now()
		out, err := run(repoRoot(), cgoEnv(), goBin, "build", "-overlay", ov, "-tags", "byollvm", "-o", tc.KddpOrd, "./cmd/kddp")
		if err != nil {
			infra("building kddp-ord failed:\n%s", out)
		}
		logf("built kddp-ord in %.1fs", time.Since(t0).Seconds())
	})
}

type bObs struct {
	KddpRC   int
	KddpOut  string
	Built    bool
	Stdout   string
	Exit     int
	Class    string
	MaxN     map[string]int
	OrderEnv string
}

func (o *bObs) key() string {
	return fmt.Sprintf("rc=%d\n%s\nbuilt=%t exit=%d class=%s\n%s", o.KddpRC, o.KddpOut, o.Built, o.Exit, o.Class, o.Stdout)
}

// compileAndRunOrdered compiles p in dir with kddp-ord under the given VERIF_ORDER and runs the result.
func compileAndRunOrdered(tc *Toolchain, p *HProg, dir, orderEnv string, cfg BuildCfg) *bObs {
	os.RemoveAll(dir)
	if err := p.materialise(dir); err != nil {
		infra("materialise: %v", err)
	}
	logPath := filepath.Join(dir, ".order.log")
	exe := filepath.Join(dir, "prog")
	out, rc, err := compileDDP(tc, tc.KddpOrd, dir, p.Root, exe, cfg, true, []string{"VERIF_ORDER=" + orderEnv, "VERIF_ORDER_LOG=" + logPath})
	if err != nil {
		infra("kddp-ord did not start: %v", err)
	}
	o := &bObs{KddpRC: rc, KddpOut: normKddpOut(out), OrderEnv: orderEnv, MaxN: map[string]int{}}
	if f, err := os.Open(logPath); err == nil {
		sc := bufio.NewScanner(f)
		for sc.Scan() {
			var site string
			var visit, n int
			l := sc.Text()
			if i := strings.Index(l, "#"); i > 0 {
				site = l[:i]
				fmt.Sscanf(l[i+1:], "%d n=%d", &visit, &n)
				if n > o.MaxN[site] {
					o.MaxN[site] = n
				}
			}
		}
		f.Close()
	}
	if _, err := os.Stat(exe); err == nil {
		o.Built = true
	}
	if rc == 0 && o.Built {
		// the produced program runs on the simulated heap (fixed policy): deterministic memory contents and the
		// setlocale shim, so that a difference can only come from the compilation order
		pol := comparePolicy
		res := runExe(dir, exe, p.Stdin, p.Args, &pol, filepath.Join(dir, ".heap.json"), 20*time.Second)
		o.Stdout, o.Exit, o.Class = string(res.Stdout), res.Exit, res.Class
	}
	return o
}

type bReplay struct {
	Property string            `json:"property"`
	Engine   string            `json:"engine"`
	Seed     uint64            `json:"seed"`
	Inv      string            `json:"inv"`
	Sig      string            `json:"sig"`
	Detail   string            `json:"detail"`
	Name     string            `json:"program"`
	Root     string            `json:"root"`
	Files    map[string][]byte `json:"files"`
	Stdin    []byte            `json:"stdin,omitempty"`
	Cfg      BuildCfg          `json:"config"`
	Order    string            `json:"verif_order"`
}

func diffB(ref, o *bObs) (string, string) {
	switch {
	case ref.KddpRC != o.KddpRC:
		return "R1|kddp-exit", fmt.Sprintf("kddp exit status %d under identity, %d under %s", ref.KddpRC, o.KddpRC, o.OrderEnv)
	case ref.KddpOut != o.KddpOut:
		return "R2|kddp-stderr", fmt.Sprintf("kddp output differs under %s:\n--- identity\n%s\n--- permuted\n%s", o.OrderEnv, firstLines(ref.KddpOut, 12), firstLines(o.KddpOut, 12))
	case ref.Built != o.Built:
		return "R1|exe-exists", fmt.Sprintf("executable exists=%t under identity, %t under %s", ref.Built, o.Built, o.OrderEnv)
	case ref.Class == "resource-limit" || o.Class == "resource-limit":
		return "", ""
	case ref.Stdout != o.Stdout || ref.Exit != o.Exit || ref.Class != o.Class:
		return "R3|behaviour", fmt.Sprintf("program behaviour differs under %s: exit %d/%d class %s/%s\n--- identity stdout\n%s\n--- permuted stdout\n%s", o.OrderEnv, ref.Exit, o.Exit, ref.Class, o.Class, firstLines(ref.Stdout, 10), firstLines(o.Stdout, 10))
	}
	return "", ""
}

func levelB(tier string) (map[string]*violGroup, *levelBInfo) {
	info := &levelBInfo{replays: map[string]string{}, siteMaxN: map[string]int{}}
	tc := buildToolchain()
	buildKddpOrd(tc)
	thorough := tier == "thorough"
	progs := corpusHProgs(tc)
	r := prng.Stream(seed, "ordersim", "levelB")
	if !thorough {
		// a seeded sample of the corpus, always including the multi-module programs
		var keep []*HProg
		for _, p := range progs {
			multi := len(p.Files) > 2
			if multi || r.Chance(0.2) {
				keep = append(keep, p)
			}
		}
		progs = keep
	}
	nGen := 20
	if thorough {
		nGen = 300
	}
	for n := 0; n < nGen; n++ {
		gr := prng.Stream(seed, "ordersim", "levelB-genmod", n)
		ms := genModuleSet(gr, genModOpts{Aliases: true})
		progs = append(progs, &HProg{Name: fmt.Sprintf("genmod#%d", n), Root: ms.Root, Files: ms.Tree.Files})
	}
	// generated single-module programs (W-gen-own): calls with several arguments, references next to values, nested calls —
	// the shapes whose code generation looks at maps of arguments; compiled at -O 2 mostly, where the compiler does most
	nOwn := 60
	if thorough {
		nOwn = 600
	}
	if v := os.Getenv("VERIF_GEN"); v != "" {
		fmt.Sscan(v, &nOwn)
	}
	ownFrom := len(progs)
	for n := 0; n < nOwn; n++ {
		progs = append(progs, genOwnProgram(prng.Stream(seed, "ordersim", "levelB-genown", n), n, false))
	}
	nOrders := 5
	if thorough {
		nOrders = 20
	}
	type task struct {
		p      *HProg
		orders []string
		cfg    BuildCfg
	}
	var tasks []task
	for pi, p := range progs {
		pr := prng.Stream(seed, "ordersim", "levelB-orders", p.Name)
		t := task{p: p, cfg: BuildCfg{O: pr.Intn(3), LinkMods: true, LinkList: pr.Bool()}}
		if pi >= ownFrom && pr.Chance(0.7) {
			t.cfg.O = 2
		}
		t.orders = append(t.orders, "reverse:0")
		for i := 1; i < nOrders; i++ {
			t.orders = append(t.orders, fmt.Sprintf("%s:%d", prng.Pick(pr, []string{"rotate", "rotate", "random", "transpose", "mixed"}), pr.Uint64()>>1))
		}
		tasks = append(tasks, t)
	}
	logf("ordersim level B: %d programs x %d orders with kddp-ord", len(tasks), nOrders)
	groups := map[string]*violGroup{}
	var mu sync.Mutex
	var wg sync.WaitGroup
	sem := make(chan struct{}, nWorkers)
	t0 := time.Now()
	os.MkdirAll(filepath.Join(verifDir, "replays"), 0o755)
	for ti := range tasks {
		wg.Add(1)
		go func(ti int) {
			defer wg.Done()
			sem <- struct{}{}
			defer func() { <-sem }()
			t := tasks[ti]
			dir := filepath.Join(workRoot, fmt.Sprintf("b%d", ti))
			defer os.RemoveAll(dir)
			ref := compileAndRunOrdered(tc, t.p, dir, "identity:0", t.cfg)
			mu.Lock()
			info.runs++
			for s, n := range ref.MaxN {
				if n > info.siteMaxN[s] {
					info.siteMaxN[s] = n
				}
			}
			mu.Unlock()
			for _, ord := range t.orders {
				o := compileAndRunOrdered(tc, t.p, dir, ord, t.cfg)
				sig, detail := diffB(ref, o)
				mu.Lock()
				info.runs++
				if sig != "" {
					inv := "C16." + strings.SplitN(sig, "|", 2)[0]
					key := inv + "\x00B|" + sig
					g := groups[key]
					if g == nil {
						g = &violGroup{Inv: inv, Sig: "B|" + sig, Detail: fmt.Sprintf("%s\n  program %s, %s", detail, t.p.Name, t.cfg)}
						groups[key] = g
						rp := &bReplay{Property: "C16", Engine: "ordersim-b", Seed: seed, Inv: inv, Sig: "B|" + sig, Detail: g.Detail, Name: t.p.Name, Root: t.p.Root, Files: t.p.Files, Stdin: t.p.Stdin, Cfg: t.cfg, Order: ord}
						path := filepath.Join(verifDir, "replays", fmt.Sprintf("C16-B-%s-seed%d-%s.json", sanitize(inv), seed, shortHash(sig+t.p.Name)))
						b, _ := json.MarshalIndent(rp, "", " ")
						os.WriteFile(path, b, 0o644)
						info.replays[key] = path
					}
					g.Runs = append(g.Runs, ti)
				}
				mu.Unlock()
			}
		}(ti)
	}
	wg.Wait()
	info.wall = time.Since(t0)
	return groups, info
}

// replayB re-executes a level-B replay file.
func replayB(path string) (bool, *bReplay) {
	b, err := os.ReadFile(path)
	if err != nil {
		infra("cannot read %s: %v", path, err)
	}
	var rp bReplay
	if err := json.Unmarshal(b, &rp); err != nil {
		infra("replay file does not parse: %v", err)
	}
	tc := buildToolchain()
	buildKddpOrd(tc)
	p := &HProg{Name: rp.Name, Root: rp.Root, Files: rp.Files, Stdin: rp.Stdin}
	dir := filepath.Join(workRoot, "breplay")
	ref := compileAndRunOrdered(tc, p, dir, "identity:0", rp.Cfg)
	o := compileAndRunOrdered(tc, p, dir, rp.Order, rp.Cfg)
	sig, _ := diffB(ref, o)
	return sig != "" && "B|"+sig == rp.Sig, &rp
}

var _ = exec.Command
var _ = bytes.NewReader

var reAddr = regexp.MustCompile(`0x[0-9a-f]+|goroutine [0-9]+`)

// normKddpOut removes what legitimately differs between two processes printing the same thing: addresses in stack
// traces of internal compiler errors
func normKddpOut(s string) string { return reAddr.ReplaceAllString(s, "0xADDR") }
