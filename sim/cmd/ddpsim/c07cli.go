package main

import (
	"encoding/json"
	"fmt"
	"os"
	"path/filepath"
	"regexp"
	"sync"

	"ddpsim/fwproto"
)

// I4 of C07: the stock kddp CLI on the same faulted trees — exit status, printed diagnostics and
// produced files must agree.

var reErrHeader = regexp.MustCompile(`(?m)Fehler \(\d{4}\) in `)
var reWarnHeader = regexp.MustCompile(`(?m)Warnung \(\d{4}\) in `)

type cliViol struct {
	sig, detail string
	job         int
	mode        cliMode
}

func c07CLI(jobs []fwproto.Job, results []fwproto.Result, want int) ([]cliViol, int, map[string]int) {
	tc := buildToolchain()
	// choose runs: those that returned, spread evenly; prefer runs with diagnostics (two thirds)
	var withDiag, without []int
	for i := range results {
		r := &results[i]
		if r.Died != "" || len(r.Calls) != 1 || len(jobs[i].Steps) > 1 {
			continue
		}
		if len(r.Calls[0].Diags) > 0 || r.Calls[0].Err != "" {
			withDiag = append(withDiag, i)
		} else {
			without = append(without, i)
		}
	}
	pick := func(xs []int, n int) []int {
		if n >= len(xs) {
			return xs
		}
		out := make([]int, 0, n)
		for k := 0; k < n; k++ {
			out = append(out, xs[k*len(xs)/n])
		}
		return out
	}
	chosen := append(pick(withDiag, want*2/3), pick(without, want/3)...)
	var viols []cliViol
	stats := map[string]int{}
	var mu sync.Mutex
	var wg sync.WaitGroup
	sem := make(chan struct{}, nWorkers)
	for _, i := range chosen {
		wg.Add(1)
		go func(i int) {
			defer wg.Done()
			sem <- struct{}{}
			defer func() { <-sem }()
			ex, err := explicitJob(&jobs[i])
			if err != nil {
				return
			}
			// the kind of output asked for and the link mode vary with the run: every path through the build command
			// has to report failure the same way
			mode := cliModes[(i/3)%len(cliModes)]
			o := cliRun(tc, ex, mode, fmt.Sprintf("cli%d", i))
			if o == nil {
				return
			}
			mu.Lock()
			stats[fmt.Sprintf("mode %s module-linken=%t", map[string]string{"": "executable", ".ll": "llvm-ir", ".o": "object", ".s": "assembly"}[mode.Ext], mode.Mods)]++
			if o.rc == 0 {
				stats["exit0"]++
			} else {
				stats["exit-nonzero"]++
			}
			if o.warnOnly {
				stats["warnings-only"]++
			}
			if o.sig != "" {
				viols = append(viols, cliViol{o.sig, o.detail, i, mode})
			}
			mu.Unlock()
		}(i)
	}
	wg.Wait()
	return viols, len(chosen), stats
}

// cliMode: what the stock kddp is asked to produce
type cliMode struct {
	Ext  string `json:"ext"`           // "" executable, ".ll", ".o", ".s"
	Mods bool   `json:"module_linken"` // --module-linken
}

var cliModes = []cliMode{{"", true}, {"", true}, {".ll", true}, {".o", true}, {".s", true}, {".ll", false}, {".o", false}}

type cliOutcome struct {
	rc          int
	warnOnly    bool
	sig, detail string
}

// cliRun materialises the (explicit) tree of a job, runs the stock kddp on it in the given mode and evaluates I4.
func cliRun(tc *Toolchain, ex *fwproto.Job, mode cliMode, work string) *cliOutcome {
	dir := filepath.Join(workRoot, work)
	defer os.RemoveAll(dir)
	if err := ex.Tree.Materialise(dir); err != nil {
		return nil
	}
	exe := filepath.Join(dir, "prog"+mode.Ext)
	out, rc, err := compileDDP(tc, tc.Kddp, dir, ex.Root, exe, BuildCfg{O: 1, LinkMods: mode.Mods, LinkList: true}, false, nil)
	if err != nil {
		return nil
	}
	st, statErr := os.Stat(exe)
	built := statErr == nil
	if mode.Ext != "" {
		// an empty file is not a usable result
		built = built && st.Size() > 0
	}
	hasErr := reErrHeader.MatchString(out)
	hasWarn := reWarnHeader.MatchString(out)
	o := &cliOutcome{rc: rc, warnOnly: hasWarn && !hasErr}
	add := func(sig, detail string) {
		o.sig, o.detail = sig, detail+"\n  kddp output:\n  "+firstLines(out, 12)
	}
	what := fmt.Sprintf("kddp -o prog%s --module-linken=%t", mode.Ext, mode.Mods)
	switch {
	case hasErr && rc == 0:
		add("cli|error-printed-exit-0", fmt.Sprintf("%s printed an error-level diagnostic but exited with status 0 (output exists=%t)", what, built))
	case rc != 0 && built:
		add("cli|failed-but-executable", fmt.Sprintf("%s exited with status %d but left its output behind", what, rc))
	case rc == 0 && !built:
		add("cli|exit-0-no-executable", fmt.Sprintf("%s exited with status 0 but produced no output", what))
	case rc != 0 && len(out) == 0:
		add("cli|silent-failure", fmt.Sprintf("%s exited with status %d without printing anything", what, rc))
	case hasWarn && !hasErr && rc != 0 && !reOtherFailure.MatchString(out):
		add("cli|warnings-fail", fmt.Sprintf("only warnings were printed but %s exited with status %d", what, rc))
	}
	return o
}

// replayCLI re-runs an I4 replay file.
func replayCLI(path string) bool {
	b, err := os.ReadFile(path)
	if err != nil {
		infra("cannot read %s: %v", path, err)
	}
	var rp replayFile
	if err := json.Unmarshal(b, &rp); err != nil {
		infra("replay file does not parse: %v", err)
	}
	var mode cliMode
	if eb, err := json.Marshal(rp.Extra); err == nil {
		json.Unmarshal(eb, &mode)
	}
	o := cliRun(buildToolchain(), &rp.Job, mode, "clireplay")
	if o == nil {
		infra("cannot run kddp on the tree of %s", path)
	}
	if os.Getenv("DDPSIM_DEBUG") != "" {
		fmt.Printf("  mode %+v: exit %d, %s\n  %s\n", mode, o.rc, o.sig, o.detail)
	}
	return o.sig == rp.Sig
}

var reOtherFailure = regexp.MustCompile(`Fehler beim|Unerwarteter Fehler|Fehlerhafter Quellcode`)
