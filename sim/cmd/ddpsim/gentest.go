package main

import (
	"fmt"
	"path/filepath"
	"sort"
	"time"

	"ddpsim/fwproto"
	"ddpsim/prng"
	"ddpsim/simdisk"
)

// gentest: development aid — parse N generated programs with the real frontend and show why any is rejected.
func runGentest(args []string) int {
	kind, n := "own", 200
	if len(args) > 0 {
		kind = args[0]
	}
	if len(args) > 1 {
		fmt.Sscan(args[1], &n)
	}
	if kind == "ownbuild" {
		return gentestBuild(n)
	}
	if kind == "rolesc11" {
		cnt := map[string]int{}
		for i := 0; i < n; i++ {
			p := genOwnProgramFull(prng.Stream(seed, "c11", "gen", i), i, false, i%2 == 0, i%3 == 0)
			for _, r := range p.Roles {
				cnt[r]++
			}
		}
		var ks []string
		for k := range cnt {
			ks = append(ks, k)
		}
		sort.Strings(ks)
		for _, k := range ks {
			fmt.Printf("%5d %s\n", cnt[k], k)
		}
		return 0
	}
	if kind == "showown" {
		p := genOwnProgram(prng.Stream(seed, "heapsim", "gen", n), n, false)
		fmt.Println(string(p.Files[p.Root]))
		return 0
	}
	if kind == "showc11" {
		p := genOwnProgramOpt(prng.Stream(seed, "c11", "gen", n), n, false, n%2 == 0)
		fmt.Println(string(p.Files[p.Root]))
		return 0
	}
	bin, err := buildFrontw(false)
	if err != nil {
		infra("%v", err)
	}
	pool := &Pool{Bin: bin, Env: []string{"DDPPATH=" + filepath.Join(repoRoot(), "lib/stdlib")}, Workers: nWorkers, WorkRoot: workRoot, Stage1: 30 * time.Second}
	var jobs []fwproto.Job
	var texts []string
	for i := 0; i < n; i++ {
		switch kind {
		case "own":
			p := genOwnProgramOpt(prng.Stream(seed, "heapsim", "gen", i), i, i%2 == 0, i%3 == 0)
			jobs = append(jobs, fwproto.Job{ID: i, Tree: &simdisk.Tree{Files: p.Files}, Root: p.Root, Source: true})
			texts = append(texts, string(p.Files[p.Root]))
		case "alias":
			as := genAliasSet(prng.Stream(seed, "c20", "aliasset", i))
			if i%3 == 2 {
				as = genAliasSetMixed(prng.Stream(seed, "c20", "aliasset", i))
			}
			if i%6 == 4 {
				as = genAliasSetGeneric(prng.Stream(seed, "c20", "aliasset", i))
			}
			if i%6 == 1 {
				as = genAliasSetSiblings(prng.Stream(seed, "c20", "aliasset", i))
			}
			jobs = append(jobs, fwproto.Job{ID: i, Tree: as.Tree, Root: as.Root, Source: true})
			t := as.Desc + "\n"
			for _, f := range as.Tree.SortedFiles() {
				if f != "aus.ddp" {
					t += "=== " + f + "\n" + string(as.Tree.Files[f]) + "\n"
				}
			}
			texts = append(texts, t)
		case "mod":
			ms := genModuleSet(prng.Stream(seed, "gentest", "mod", i), genModOpts{})
			jobs = append(jobs, fwproto.Job{ID: i, Tree: ms.Tree, Root: ms.Root, Source: true})
			t := ""
			for _, f := range ms.Tree.SortedFiles() {
				t += "=== " + f + "\n" + string(ms.Tree.Files[f]) + "\n"
			}
			texts = append(texts, t)
		}
	}
	res, err := pool.Run(jobs, nil)
	if err != nil {
		infra("%v", err)
	}
	hist := map[string]int{}
	first := map[string]int{}
	bad := 0
	for i, r := range res {
		if r.Died != "" {
			hist["DIED "+r.Died]++
			continue
		}
		c := r.Calls[0]
		if len(c.Diags) == 0 && c.Err == "" {
			continue
		}
		bad++
		key := c.Err
		if len(c.Diags) > 0 {
			key = fmt.Sprintf("(%d) %s", c.Diags[0].Code, c.Diags[0].Msg)
			if len(key) > 110 {
				key = key[:110]
			}
		}
		if _, ok := first[key]; !ok {
			first[key] = i
		}
		hist[key]++
	}
	keys := make([]string, 0, len(hist))
	for k := range hist {
		keys = append(keys, k)
	}
	sort.Slice(keys, func(a, b int) bool { return hist[keys[a]] > hist[keys[b]] })
	fmt.Printf("%d of %d rejected\n", bad, n)
	for _, k := range keys {
		fmt.Printf("%5d  %s\n", hist[k], k)
	}
	if len(keys) > 0 {
		i := first[keys[0]]
		d := res[i].Calls[0].Diags[0]
		fmt.Printf("\n--- example %d: %v %s\n%s\n", i, d.Range, d.Msg, texts[i])
	}
	return 0
}

func gentestBuild(n int) int {
	tc := buildToolchain()
	var jobs []*heapJob
	for i := 0; i < n; i++ {
		p := genOwnProgramOpt(prng.Stream(seed, "heapsim", "gen", i), i, i%2 == 0, i%3 == 0)
		jobs = append(jobs, &heapJob{Prog: p, Cfg: BuildCfg{O: 1, LinkMods: true, LinkList: true}, Policies: []HeapPolicy{strictPolicy}})
	}
	outs := runHeapJobs(tc, jobs, tc.Kddp)
	hist := map[string]int{}
	first := map[string]int{}
	for i, o := range outs {
		if o.BuildRC == 0 {
			continue
		}
		key := firstLines(o.BuildOut, 1)
		key = reDigits.ReplaceAllString(key, "N")
		if len(key) > 230 {
			key = key[:230]
		}
		if _, ok := first[key]; !ok {
			first[key] = i
		}
		hist[key]++
	}
	for k, c := range hist {
		fmt.Printf("%5d %s\n", c, k)
		fmt.Println(firstLines(outs[first[k]].BuildOut, 3))
	}
	return 0
}
