// ddpsim is the driver of the deterministic simulation checks for DDP-Projekt/Kompilierer.
//
//	ddpsim check <property> <quick|thorough>
//	ddpsim replay <file>
//	ddpsim selftest
//	ddpsim build
//
// Exit codes: 0 held on everything explored, 1 VIOLATION printed, 2 harness trouble.
package main

import (
	"fmt"
	"os"
	"os/exec"
	"path/filepath"
	"runtime"
	"strconv"
	"strings"
	"syscall"
	"time"
)

var (
	verifDir = envOr("VERIF_DIR", "/verif")
	simDir   = filepath.Join(verifDir, "sim")
	cacheDir = filepath.Join(verifDir, ".cache", cacheName())
	goBin    = findGo()
	seed     = uint64(envInt("VERIF_SEED", 1))
	nWorkers = envInt("VERIF_WORKERS", runtime.NumCPU())
	workRoot string
	startT   = time.Now()
)

func cacheName() string {
	r := repoRoot()
	if r == "/repo" {
		return "default"
	}
	return "alt-" + strings.NewReplacer("/", "_").Replace(strings.Trim(r, "/"))
}

func envOr(k, d string) string {
	if v := os.Getenv(k); v != "" {
		return v
	}
	return d
}

func envInt(k string, d int) int {
	if v := os.Getenv(k); v != "" {
		if n, err := strconv.Atoi(v); err == nil {
			return n
		}
	}
	return d
}

// findGo locates the go1.24.0 toolchain the repository pins (module cache), so that
// GOTOOLCHAIN=local + GOSUMDB=off work offline.
func findGo() string {
	if g := os.Getenv("DDPSIM_GO"); g != "" {
		return g
	}
	cands := []string{
		"/root/go/pkg/mod/golang.org/toolchain@v0.0.1-go1.24.0.linux-amd64/bin/go",
	}
	for _, c := range cands {
		if _, err := os.Stat(c); err == nil {
			return c
		}
	}
	return "go"
}

func goEnv() []string {
	env := os.Environ()
	env = append(env, "GOFLAGS=-mod=mod", "GOPROXY=off", "GOSUMDB=off", "GOTOOLCHAIN=local", "GOWORK=off")
	if filepath.IsAbs(goBin) {
		// tools that call "go" themselves (go/packages) must find the same toolchain
		env = append(env, "PATH="+filepath.Dir(goBin)+":"+os.Getenv("PATH"))
	}
	return env
}

func infra(format string, a ...any) {
	fmt.Fprintf(os.Stderr, "ddpsim: harness trouble: "+format+"\n", a...)
	cleanup()
	os.Exit(2)
}

func cleanup() {
	if workRoot != "" && os.Getenv("DDPSIM_KEEP_WORK") == "" {
		os.RemoveAll(workRoot)
	}
}

func setupWork() {
	base := os.Getenv("VERIF_WORK")
	if base == "" {
		if st, err := os.Stat("/dev/shm"); err == nil && st.IsDir() {
			base = "/dev/shm"
		} else {
			base = "/var/tmp"
		}
	}
	// work directories of earlier runs that were killed (their process is gone) are removed
	if olds, _ := filepath.Glob(filepath.Join(base, "ddpsim-*")); len(olds) > 0 {
		for _, o := range olds {
			var pid int
			if _, err := fmt.Sscanf(filepath.Base(o), "ddpsim-%d", &pid); err == nil && pid > 0 {
				if err := syscall.Kill(pid, 0); err == syscall.ESRCH {
					os.RemoveAll(o)
				}
			}
		}
	}
	workRoot = filepath.Join(base, fmt.Sprintf("ddpsim-%d", os.Getpid()))
	os.RemoveAll(workRoot)
	if err := os.MkdirAll(workRoot, 0o755); err != nil {
		infra("cannot create work dir: %v", err)
	}
}

func logf(format string, a ...any) {
	fmt.Fprintf(os.Stderr, "[%6.1fs] "+format+"\n", append([]any{time.Since(startT).Seconds()}, a...)...)
}

func run(dir string, env []string, name string, args ...string) (string, error) {
	cmd := exec.Command(name, args...)
	cmd.Dir = dir
	cmd.Env = env
	out, err := cmd.CombinedOutput()
	return string(out), err
}

func main() {
	if len(os.Args) < 2 {
		fmt.Fprintln(os.Stderr, "usage: ddpsim check <Cxx> <quick|thorough> | replay <file> | selftest | build")
		os.Exit(2)
	}
	setupWork()
	code := 0
	switch os.Args[1] {
	case "check":
		if len(os.Args) < 4 {
			infra("usage: ddpsim check <Cxx> <quick|thorough>")
		}
		prop, tier := strings.ToUpper(os.Args[2]), os.Args[3]
		if tier != "quick" && tier != "thorough" {
			infra("tier must be quick or thorough")
		}
		code = runCheck(prop, tier)
	case "replay":
		if len(os.Args) < 3 {
			infra("usage: ddpsim replay <file>")
		}
		code = runReplay(os.Args[2])
	case "selftest":
		code = runSelftest(os.Args[2:])
	case "build":
		code = runBuildAll()
	case "gentest":
		code = runGentest(os.Args[2:])
	default:
		infra("unknown command %q", os.Args[1])
	}
	cleanup()
	os.Exit(code)
}

func runCheck(prop, tier string) int {
	switch prop {
	case "C03", "C07":
		return checkSrcsim(prop, tier)
	case "C05":
		return checkC05(tier)
	case "C10":
		return checkC10(tier)
	case "C11":
		return checkC11(tier)
	case "C16":
		return checkC16(tier)
	case "C20":
		return checkC20(tier)
	}
	infra("no check registered for %s", prop)
	return 2
}

func runBuildAll() int {
	if _, err := buildFrontw(false); err != nil {
		infra("%v", err)
	}
	if _, err := buildFrontw(true); err != nil {
		infra("%v", err)
	}
	buildToolchain()
	return 0
}

// buildFrontw builds the frontend worker from /repo's current working tree.
func buildFrontw(ordered bool) (string, error) {
	os.MkdirAll(cacheDir, 0o755)
	bin := filepath.Join(cacheDir, "frontw")
	args := []string{"build", "-o", bin}
	if ordered {
		bin = filepath.Join(cacheDir, "frontw-ord")
		ov, err := buildOverlay()
		if err != nil {
			return "", err
		}
		args = []string{"build", "-o", bin, "-overlay", ov, "-tags", "verifsim"}
	}
	args = append(args, "./frontw")
	t0 := time.Now()
	out, err := goTool(args...)
	if err != nil {
		return "", fmt.Errorf("building frontend worker from %s failed:\n%s", repoRoot(), out)
	}
	logf("built %s in %.1fs", filepath.Base(bin), time.Since(t0).Seconds())
	return bin, nil
}

// goTool runs the go command in the harness module.  When VERIF_REPO points at another
// checkout (scratch worktrees used for sensitivity experiments) a modfile with the replace
// directive redirected is generated, so that nothing under /verif/sim changes.
func goTool(args ...string) (string, error) { return goToolEnv(goEnv(), args...) }

func goToolEnv(env []string, args ...string) (string, error) {
	if repoRoot() != "/repo" {
		mf := filepath.Join(cacheDir, "alt.mod")
		b, err := os.ReadFile(filepath.Join(simDir, "go.mod"))
		if err != nil {
			return "", err
		}
		nb := strings.Replace(string(b), "=> /repo", "=> "+repoRoot(), 1)
		os.MkdirAll(cacheDir, 0o755)
		os.WriteFile(mf, []byte(nb), 0o644)
		sum, _ := os.ReadFile(filepath.Join(simDir, "go.sum"))
		os.WriteFile(filepath.Join(cacheDir, "alt.sum"), sum, 0o644)
		args = append([]string{args[0], "-modfile=" + mf}, args[1:]...)
	}
	return run(simDir, env, goBin, args...)
}
