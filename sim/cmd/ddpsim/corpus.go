package main

import (
	"os"
	"path/filepath"
	"regexp"
	"sort"
	"strings"
)

// Prog is one root program of the repository's own DDP corpus together with the
// files of its directory that it can reach through imports.
type Prog struct {
	Name string   // path relative to /repo
	Base string   // absolute directory
	Root string   // root file relative to Base
	Only []string // import closure (relative to Base), sorted, includes Root
	Src  []byte
	// IsMain: the root is the main file of a golden test directory (dir/dir.ddp) or an example
	IsMain bool
	Group  string // kddp | stdlib | duden | examples
}

var reStr = regexp.MustCompile(`"([^"\n]*)"`)

func repoRoot() string {
	if r := os.Getenv("VERIF_REPO"); r != "" {
		return r
	}
	return "/repo"
}

// importClosure over-approximates the files reachable from root: every string literal that
// names an existing x.ddp or directory next to the importing file is followed.
func importClosure(base, root string) []string {
	seen := map[string]bool{}
	var walk func(rel string)
	walk = func(rel string) {
		if seen[rel] {
			return
		}
		seen[rel] = true
		b, err := os.ReadFile(filepath.Join(base, rel))
		if err != nil {
			return
		}
		dir := filepath.Dir(rel)
		for _, m := range reStr.FindAllSubmatch(b, -1) {
			name := string(m[1])
			if name == "" || strings.HasPrefix(name, "Duden") || len(name) > 100 {
				continue
			}
			cand := filepath.Join(dir, name+".ddp")
			if strings.HasPrefix(cand, "..") {
				continue
			}
			if st, err := os.Stat(filepath.Join(base, cand)); err == nil && st.Mode().IsRegular() {
				walk(cand)
			}
			d := filepath.Join(dir, name)
			if st, err := os.Stat(filepath.Join(base, d)); err == nil && st.IsDir() && !strings.HasPrefix(d, "..") {
				filepath.WalkDir(filepath.Join(base, d), func(p string, e os.DirEntry, err error) error {
					if err == nil && !e.IsDir() {
						r, _ := filepath.Rel(base, p)
						if filepath.Ext(r) == ".ddp" {
							walk(r)
						} else {
							seen[r] = true
						}
					}
					return nil
				})
			}
		}
	}
	walk(root)
	var out []string
	for k := range seen {
		out = append(out, k)
	}
	sort.Strings(out)
	return out
}

// Corpus lists every .ddp file of the repository's corpus as a root program, in a fixed order.
func Corpus() []Prog {
	repo := repoRoot()
	var progs []Prog
	groups := []struct{ dir, group string }{
		{"tests/testdata/kddp", "kddp"},
		{"tests/testdata/stdlib", "stdlib"},
		{"lib/stdlib/Duden", "duden"},
		{"examples", "examples"},
	}
	// hand-written seed programs for constructs the repository's corpus lacks (recursive generic functions, generic
	// Kombinationen inside each other, alias declarations, forward declarations, operator overloads on own types)
	groups = append(groups, struct{ dir, group string }{filepath.Join(simDir, "corpus_extra"), "extra"})
	for _, g := range groups {
		var files []string
		root := filepath.Join(repo, g.dir)
		if filepath.IsAbs(g.dir) {
			root = g.dir
		}
		filepath.WalkDir(root, func(p string, e os.DirEntry, err error) error {
			if err == nil && !e.IsDir() && filepath.Ext(p) == ".ddp" {
				files = append(files, p)
			}
			return nil
		})
		sort.Strings(files)
		for _, f := range files {
			base := filepath.Dir(f)
			root := filepath.Base(f)
			src, err := os.ReadFile(f)
			if err != nil {
				continue
			}
			rel, _ := filepath.Rel(repo, f)
			if g.group == "extra" {
				rel = "verif-extra/" + filepath.Base(f)
			}
			isMain := false
			switch g.group {
			case "kddp", "stdlib":
				isMain = strings.TrimSuffix(root, ".ddp") == filepath.Base(base)
			case "examples":
				isMain = base == filepath.Join(repo, "examples")
			}
			progs = append(progs, Prog{
				Name: rel, Base: base, Root: root, Only: importClosure(base, root), Src: src,
				IsMain: isMain, Group: g.group,
			})
		}
	}
	return progs
}
