// Package fwproto is the job/result protocol between the driver and the sacrificial
// frontend worker processes (JSON lines on stdin/stdout).
package fwproto

import "ddpsim/simdisk"

// Step is one Parse call of a run, preceded by optional disk mutations.
type Step struct {
	Writes  map[string][]byte `json:"writes,omitempty"`  // files (re)written before the call
	Removes []string          `json:"removes,omitempty"` // files removed before the call
	Faults  []simdisk.Fault   `json:"faults,omitempty"`  // faults applied to the *current* disk before the call
	Fresh   bool              `json:"fresh,omitempty"`   // start with an empty Modules cache (default: shared with previous step)
	Order   *OrderSpec        `json:"order,omitempty"`   // map-order schedule for this call (ordersim builds only)
	Root    string            `json:"root,omitempty"`    // root file of this call (default: job root)
}

// OrderSpec decides every map iteration order of one call.
type OrderSpec struct {
	Family string `json:"family"` // identity | reverse | rotate | transpose | random | explicit
	Seed   uint64 `json:"seed"`
	// explicit: per (site, visit#) permutation; every visit not listed is identity
	Explicit map[string][]int `json:"explicit,omitempty"`
}

type Job struct {
	ID     int             `json:"id"`
	Base   string          `json:"base,omitempty"` // directory loaded as the base tree (cached in the worker)
	Only   []string        `json:"only,omitempty"` // restrict the base tree to these files
	Tree   *simdisk.Tree   `json:"tree,omitempty"` // explicit tree (replay files); overrides Base
	Faults []simdisk.Fault `json:"faults,omitempty"`
	Alt    string          `json:"alt,omitempty"` // absolute path of the corpus file used by splice / torn_write
	Root   string          `json:"root"`
	Steps  []Step          `json:"steps,omitempty"` // default: one fresh call
	Annot  bool            `json:"annot,omitempty"` // run the const-param annotator like kddp -O2
	Keep   bool            `json:"keep,omitempty"`  // keep the run directory
	Source bool            `json:"source,omitempty"`
	// WarnOnly: the last step differs from the first only by statements that are accepted with a warning ("todo" faults);
	// the first and the last call must agree on whether the compilation failed (C07: warnings alone never fail a compilation, and a warning never stands in for an error)
	WarnOnly bool `json:"warn_only,omitempty"`
}

type Diag struct {
	Code  int     `json:"code"`
	Level int     `json:"level"`
	File  string  `json:"file"`
	Range [4]uint `json:"range"`
	Msg   string  `json:"msg"`
	Fn    string  `json:"fn"`
}

type Viol struct {
	Inv    string `json:"inv"`    // invariant id: C03.panic, C07.I1 ...
	Sig    string `json:"sig"`    // signature used to identify known findings
	Detail string `json:"detail"` // human readable
}

type OrderVisit struct {
	Site string `json:"site"`
	Idx  int    `json:"idx"`
	N    int    `json:"n"`
	Perm []int  `json:"perm,omitempty"`
}

type Call struct {
	Err     string       `json:"err,omitempty"`
	NilMod  bool         `json:"nilmod,omitempty"`
	Faulty  bool         `json:"faulty,omitempty"`
	Diags   []Diag       `json:"diags,omitempty"`
	Modules []string     `json:"modules,omitempty"` // "$R/x.ddp", suffixed "=nil" / "=faulty"
	Viol    []Viol       `json:"viol,omitempty"`
	Visits  []OrderVisit `json:"visits,omitempty"` // only visits with n>=2
	Unident []string     `json:"unident,omitempty"`
	Extra   string       `json:"extra,omitempty"` // property specific observation (e.g. alias callability)
	NS      int64        `json:"-"`
}

type Result struct {
	ID    int    `json:"id"`
	Calls []Call `json:"calls"`
	Infra string `json:"infra,omitempty"` // harness trouble (never a violation)
	// filled in by the driver when the worker died or hung
	Died   string `json:"died,omitempty"`
	DiedFn string `json:"died_fn,omitempty"`
}
