/*
 * simheap — the simulated heap under compiled DDP programs.
 *
 * Linked into every test program by kddp's own link step:
 *   --gcc-optionen "-Wl,--wrap=ddp_reallocate,--wrap=realloc,--wrap=free,--wrap=signal,
 *                   --wrap=setlocale,--wrap=ddp_ddpmain,--wrap=ddp_end_runtime simheap.o -lddpruntime"
 *
 * Two layers:
 *   ledger    (__wrap_ddp_reallocate): every (ptr, oldSize, newSize) the generated code, the
 *             runtime and the stdlib hand to the single allocation entry point is checked against
 *             the block table (L1 ownership, L2 true size) and recorded; the *real*
 *             ddp_reallocate then runs.
 *   allocator (__wrap_realloc/__wrap_free, only when reached from ddp_reallocate): an arena at a
 *             fixed address whose placement / fill / move / reuse policy is drawn from
 *             SIMHEAP_SEED.  Guard pages make any access outside a live block a deterministic
 *             trap (L5), canaries catch writes into slack (L4), the exit audit finds blocks
 *             that were never released (L3).
 *
 * Every choice comes from one xoshiro256** stream seeded by SIMHEAP_SEED (same generator as
 * sim/prng).  Nothing reads a clock.  The report is written to SIMHEAP_REPORT.
 */
#define _GNU_SOURCE
#include <errno.h>
#include <execinfo.h>
#include <fcntl.h>
#include <locale.h>
#include <signal.h>
#include <stdarg.h>
#include <stdint.h>
#include <stdio.h>
#include <stdlib.h>
#include <string.h>
#include <sys/mman.h>
#include <ucontext.h>
#include <unistd.h>

#define PAGE 4096UL
#define ARENA_BASE ((uintptr_t)0x7e0000000000UL)
#define ARENA_SIZE ((size_t)1 << 36) /* 64 GiB of address space, committed on demand */
#define CANARY 32

/* ---------- PRNG (bit-identical to sim/prng) ---------- */
static uint64_t sm_next(uint64_t *x) {
	*x += 0x9e3779b97f4a7c15ULL;
	uint64_t z = *x;
	z = (z ^ (z >> 30)) * 0xbf58476d1ce4e5b9ULL;
	z = (z ^ (z >> 27)) * 0x94d049bb133111ebULL;
	return z ^ (z >> 31);
}
static uint64_t xs[4];
static inline uint64_t rotl(uint64_t x, int k) { return (x << k) | (x >> (64 - k)); }
static uint64_t rnd(void) {
	uint64_t res = rotl(xs[1] * 5, 7) * 9, t = xs[1] << 17;
	xs[2] ^= xs[0]; xs[3] ^= xs[1]; xs[1] ^= xs[2]; xs[0] ^= xs[3]; xs[2] ^= t; xs[3] = rotl(xs[3], 45);
	return res;
}
static void rnd_seed(uint64_t seed) { uint64_t x = seed; for (int i = 0; i < 4; i++) xs[i] = sm_next(&x); }

/* ---------- configuration ---------- */
enum { PLACE_GUARD_END, PLACE_GUARD_START, PLACE_PACKED };
enum { FILL_ZERO, FILL_A5, FILL_JUNK };
enum { MOVE_ALWAYS, MOVE_INPLACE, MOVE_COIN };
enum { REUSE_NEVER, REUSE_LIFO };
static int cfg_place = PLACE_GUARD_END, cfg_fill = FILL_JUNK, cfg_move = MOVE_ALWAYS, cfg_reuse = REUSE_NEVER;
static size_t cfg_align = 16;
static int cfg_locale_missing = 0;
static uint64_t cfg_seed = 1;
static const char *report_path, *log_path;

/* ---------- block table ---------- */
enum { ST_LIVE = 1, ST_FREED = 2 };
typedef struct {
	uintptr_t start;   /* user pointer */
	size_t size;       /* current size (the true size the ledger knows) */
	size_t cap;        /* bytes usable without leaving the slot (start..start+cap) */
	uintptr_t map_lo;  /* first page of the slot (incl. leading guard) */
	uintptr_t map_hi;  /* end of the slot (incl. trailing guard) */
	uint32_t state;
	uint32_t gen;
	uint64_t seq_alloc, seq_free;
	uintptr_t pc_alloc; /* caller of ddp_reallocate that obtained the block */
} block_t;

static block_t *blocks;
static size_t nblocks, capblocks;
static uintptr_t bump;       /* next free address in the arena */
static uintptr_t packed_end; /* committed end for the packed policy */
static int arena_ok;

static uint64_t seq;           /* ledger event counter */
static uint64_t n_alloc, n_free, n_resize, n_moved, n_inplace, n_shortcut, n_reused;
static uint64_t n_refused, refused_size; /* requests no allocator could satisfy (> REFUSE_LIMIT) */
#define REFUSE_LIMIT ((size_t)1 << 31)
static uint64_t sum_new, sum_old;
static uint64_t live_bytes, max_live_bytes, live_blocks;
static int in_ddp_realloc;
static uintptr_t cur_pc;
static int main_returned, end_runtime_called, end_runtime_before_return;
static int audited;
static int logfd = -1;

/* free lists for REUSE_LIFO, by 16-byte size class up to 1024 */
#define NCLASS 65
static int32_t freelist[NCLASS];
static int32_t *nextfree; /* parallel to blocks */

/* ---------- violations ---------- */
typedef struct { char inv[8]; char text[400]; uintptr_t pc; uintptr_t addr; } viol_t;
static viol_t viols[16];
static int nviol;

extern void *__real_ddp_reallocate(void *, size_t, size_t);
extern void *__real_realloc(void *, size_t);
extern void __real_free(void *);
extern void (*__real_signal(int, void (*)(int)))(int);
extern char *__real_setlocale(int, const char *);
extern int __real_ddp_ddpmain(void);
extern void __real_ddp_end_runtime(void);

static void write_report(const char *term);

static void die_report(const char *term, int code) {
	write_report(term);
	_exit(code);
}

/* the simulator itself ran out of a resource (mappings, memory, arena): not a verdict about the program */
static void resource_limit(const char *what) {
	static int once;
	if (once++) _exit(99);
	fprintf(stderr, "simheap: resource limit: %s\n", what);
	die_report("resource_limit", 99);
}

static void violation(const char *inv, uintptr_t pc, uintptr_t addr, const char *fmt, ...) {
	if (nviol < 16) {
		viol_t *v = &viols[nviol++];
		snprintf(v->inv, sizeof v->inv, "%s", inv);
		va_list ap;
		va_start(ap, fmt);
		vsnprintf(v->text, sizeof v->text, fmt, ap);
		va_end(ap);
		v->pc = pc;
		v->addr = addr;
	}
}

static void *sys_grow(void *old, size_t oldn, size_t newn) {
	void *p = mmap(NULL, newn, PROT_READ | PROT_WRITE, MAP_PRIVATE | MAP_ANONYMOUS, -1, 0);
	if (p == MAP_FAILED) resource_limit("mmap of the simulator's own tables failed");
	if (old) { memcpy(p, old, oldn); munmap(old, oldn); }
	return p;
}

static block_t *new_block(void) {
	if (nblocks == capblocks) {
		size_t nc = capblocks ? capblocks * 2 : 4096;
		blocks = sys_grow(blocks, capblocks * sizeof(block_t), nc * sizeof(block_t));
		nextfree = sys_grow(nextfree, capblocks * sizeof(int32_t), nc * sizeof(int32_t));
		capblocks = nc;
	}
	block_t *b = &blocks[nblocks++];
	memset(b, 0, sizeof *b);
	return b;
}

/* find the slot whose mapping contains addr (slots are sorted by address: bump allocation) */
static block_t *find_slot(uintptr_t addr) {
	size_t lo = 0, hi = nblocks;
	while (lo < hi) {
		size_t mid = (lo + hi) / 2;
		if (blocks[mid].map_hi <= addr) lo = mid + 1; else hi = mid;
	}
	if (lo < nblocks && blocks[lo].map_lo <= addr && addr < blocks[lo].map_hi) return &blocks[lo];
	return NULL;
}

static int in_arena(uintptr_t a) { return a >= ARENA_BASE && a < ARENA_BASE + ARENA_SIZE; }

static void fill_fresh(unsigned char *p, size_t n) {
	switch (cfg_fill) {
	case FILL_ZERO: memset(p, 0, n); break;
	case FILL_A5: memset(p, 0xA5, n); break;
	default:
		for (size_t i = 0; i < n;) {
			uint64_t r = rnd();
			for (int k = 0; k < 8 && i < n; k++, i++) p[i] = (unsigned char)(r >> (8 * k));
		}
	}
}

static unsigned char canary_byte(uintptr_t a) { return (unsigned char)(0xC0 | ((a * 7) & 0x3f)); }
static void set_canary(uintptr_t lo, uintptr_t hi) { for (uintptr_t a = lo; a < hi; a++) *(unsigned char *)a = canary_byte(a); }
static uintptr_t check_canary(uintptr_t lo, uintptr_t hi) {
	for (uintptr_t a = lo; a < hi; a++) if (*(unsigned char *)a != canary_byte(a)) return a;
	return 0;
}

static size_t roundup(size_t n, size_t a) { return (n + a - 1) / a * a; }

static void commit(uintptr_t lo, uintptr_t hi) {
	/* fails with ENOMEM when the process has too many mappings (every guarded block is one) or memory runs out */
	if (hi > lo && mprotect((void *)lo, hi - lo, PROT_READ | PROT_WRITE) != 0) resource_limit("mprotect failed: too many live blocks for guard pages, or out of memory");
}

/* allocate a new slot for n bytes */
static block_t *slot_alloc(size_t n) {
	block_t *b;
	if (cfg_reuse == REUSE_LIFO && cfg_place == PLACE_PACKED) {
		size_t cls = roundup(n, 16) / 16;
		if (cls < NCLASS && freelist[cls] >= 0) {
			int32_t idx = freelist[cls];
			freelist[cls] = nextfree[idx];
			b = &blocks[idx];
			b->state = ST_LIVE;
			b->gen++;
			b->size = n;
			b->pc_alloc = cur_pc;
			set_canary(b->start + n, b->start + b->cap + CANARY);
			n_reused++;
			/* a reused block keeps whatever the previous owner left in it (what a real allocator does) */
			return b;
		}
	}
	b = new_block();
	if (cfg_place == PLACE_PACKED) {
		size_t cap = roundup(n ? n : 1, 16);
		uintptr_t lo = roundup(bump, 16);
		uintptr_t user = lo + CANARY;
		uintptr_t hi = user + cap + CANARY;
		if (hi > packed_end) {
			uintptr_t ne = roundup(hi + 64 * PAGE, PAGE);
			commit(packed_end, ne);
			packed_end = ne;
		}
		b->map_lo = lo; b->map_hi = hi; b->start = user; b->cap = cap;
		set_canary(lo, user);
		set_canary(user + n, hi);
		fill_fresh((unsigned char *)user, n);
		bump = hi;
	} else {
		size_t data = roundup(n ? n : 1, PAGE);
		uintptr_t lo = roundup(bump, PAGE);
		if (cfg_place == PLACE_GUARD_END) {
			/* [data pages][guard]; the block ends as close to the guard as alignment allows */
			uintptr_t dlo = lo, dhi = lo + data;
			commit(dlo, dhi);
			uintptr_t user = (dhi - n) & ~(uintptr_t)(cfg_align - 1);
			if (user < dlo) user = dlo;
			b->map_lo = dlo; b->map_hi = dhi + PAGE; b->start = user; b->cap = dhi - user;
			set_canary(dlo, user);
			set_canary(user + n, dhi);
			fill_fresh((unsigned char *)user, n);
			bump = dhi + PAGE;
		} else {
			/* [guard][data pages]; the block starts right after the guard */
			uintptr_t dlo = lo + PAGE, dhi = lo + PAGE + data;
			commit(dlo, dhi);
			b->map_lo = lo; b->map_hi = dhi; b->start = dlo; b->cap = data;
			set_canary(dlo + n, dhi);
			fill_fresh((unsigned char *)dlo, n);
			bump = dhi; /* the next slot's guard page follows */
			if (cfg_place == PLACE_GUARD_START) bump = dhi;
		}
	}
	if (bump > ARENA_BASE + ARENA_SIZE - (1UL << 30)) {
		resource_limit("arena exhausted");
	}
	b->state = ST_LIVE;
	b->size = n;
	b->pc_alloc = cur_pc;
	return b;
}

static void slot_check_canaries(block_t *b, uintptr_t pc) {
	uintptr_t bad = 0;
	if (cfg_place == PLACE_PACKED) {
		bad = check_canary(b->map_lo, b->start);
		if (!bad) bad = check_canary(b->start + b->size, b->map_hi);
	} else if (cfg_place == PLACE_GUARD_END) {
		bad = check_canary(b->map_lo, b->start);
		if (!bad) bad = check_canary(b->start + b->size, b->map_hi - PAGE);
	} else {
		bad = check_canary(b->start + b->size, b->map_hi);
	}
	if (bad) {
		violation("L4", pc, bad, "write outside a live block: byte at offset %ld of block #%ld (size %zu, allocated at event %llu) was overwritten",
		          (long)(bad - b->start), (long)(b - blocks), b->size, (unsigned long long)b->seq_alloc);
		die_report("violation", 97);
	}
}

static void slot_free(block_t *b, uintptr_t pc) {
	slot_check_canaries(b, pc);
	b->state = ST_FREED;
	b->seq_free = seq;
	if (cfg_place == PLACE_PACKED) {
		if (cfg_reuse == REUSE_LIFO) {
			size_t cls = b->cap / 16;
			if (cls < NCLASS) {
				int32_t idx = (int32_t)(b - blocks);
				nextfree[idx] = freelist[cls];
				freelist[cls] = idx;
				return;
			}
		}
		memset((void *)b->start, 0xDD, b->cap);
	} else {
		/* quarantine for ever: every later access traps */
		uintptr_t lo = cfg_place == PLACE_GUARD_END ? b->map_lo : b->map_lo + PAGE;
		uintptr_t hi = cfg_place == PLACE_GUARD_END ? b->map_hi - PAGE : b->map_hi;
		mprotect((void *)lo, hi - lo, PROT_NONE);
	}
}

/* ---------- allocator layer ---------- */
void *__wrap_realloc(void *ptr, size_t n) {
	if (!in_ddp_realloc || !arena_ok) {
		if (ptr && in_arena((uintptr_t)ptr)) {
			violation("L1", (uintptr_t)__builtin_return_address(0), (uintptr_t)ptr, "realloc() called directly on a block owned by ddp_reallocate");
			die_report("violation", 97);
		}
		return __real_realloc(ptr, n);
	}
	/* reached from the real ddp_reallocate: n > 0, n != old size */
	if (n > REFUSE_LIMIT) {
		/* a legal allocator answer to an absurd request: NULL.  The runtime then ends the program with
		   "out of memory"; the driver reports it, because no workload program ever needs 2 GiB */
		if (n_refused++ == 0) refused_size = n;
		return NULL;
	}
	if (ptr == NULL) {
		block_t *b = slot_alloc(n);
		b->seq_alloc = seq;
		return (void *)b->start;
	}
	block_t *b = find_slot((uintptr_t)ptr);
	/* the ledger layer has already established that ptr is a live block start */
	int inplace = 0;
	if (n <= b->cap) {
		if (cfg_move == MOVE_INPLACE) inplace = 1;
		else if (cfg_move == MOVE_COIN) inplace = (int)(rnd() & 1);
	}
	if (inplace) {
		slot_check_canaries(b, 0);
		uintptr_t tail_hi = cfg_place == PLACE_PACKED ? b->map_hi : (cfg_place == PLACE_GUARD_END ? b->map_hi - PAGE : b->map_hi);
		if (n > b->size) fill_fresh((unsigned char *)(b->start + b->size), n - b->size);
		b->size = n;
		set_canary(b->start + n, tail_hi);
		n_inplace++;
		return ptr;
	}
	block_t *nb = slot_alloc(n);
	b = find_slot((uintptr_t)ptr); /* table may have moved */
	nb->seq_alloc = seq;
	memcpy((void *)nb->start, (void *)b->start, b->size < n ? b->size : n);
	slot_free(b, 0);
	n_moved++;
	return (void *)nb->start;
}

void __wrap_free(void *ptr) {
	if (ptr == NULL) return;
	if (!in_arena((uintptr_t)ptr)) { __real_free(ptr); return; }
	if (!in_ddp_realloc) {
		violation("L1", (uintptr_t)__builtin_return_address(0), (uintptr_t)ptr, "free() called directly on a block owned by ddp_reallocate");
		die_report("violation", 97);
	}
	block_t *b = find_slot((uintptr_t)ptr);
	slot_free(b, 0);
}

/* ---------- ledger layer ---------- */
static void log_event(char op, void *ptr, size_t old, size_t new, void *res) {
	if (logfd < 0) return;
	char buf[160];
	int n = snprintf(buf, sizeof buf, "%llu %c %lx %zu %zu %lx\n", (unsigned long long)seq, op,
	                 ptr ? (unsigned long)((uintptr_t)ptr - ARENA_BASE) : 0UL, old, new, res ? (unsigned long)((uintptr_t)res - ARENA_BASE) : 0UL);
	if (write(logfd, buf, n) < 0) {}
}

void *__wrap_ddp_reallocate(void *ptr, size_t oldSize, size_t newSize) {
	uintptr_t pc = (uintptr_t)__builtin_return_address(0);
	seq++;
	if (!arena_ok) return __real_ddp_reallocate(ptr, oldSize, newSize);
	if (ptr != NULL) {
		block_t *b = in_arena((uintptr_t)ptr) ? find_slot((uintptr_t)ptr) : NULL;
		if (b == NULL) {
			violation("L1", pc, (uintptr_t)ptr, "ddp_reallocate(%p, %zu, %zu): pointer is not a block obtained from ddp_reallocate", ptr, oldSize, newSize);
			die_report("violation", 97);
		}
		if (b->start != (uintptr_t)ptr) {
			violation("L1", pc, (uintptr_t)ptr, "ddp_reallocate(ptr, %zu, %zu): pointer is %ld bytes into block #%ld (size %zu, %s), not its start", oldSize, newSize,
			          (long)((uintptr_t)ptr - b->start), (long)(b - blocks), b->size, b->state == ST_LIVE ? "live" : "freed");
			die_report("violation", 97);
		}
		if (b->state != ST_LIVE) {
			violation("L1", pc, (uintptr_t)ptr, "ddp_reallocate(ptr, %zu, %zu): block #%ld (size %zu, allocated at event %llu) was already released at event %llu (%s)",
			          oldSize, newSize, (long)(b - blocks), b->size, (unsigned long long)b->seq_alloc, (unsigned long long)b->seq_free, newSize == 0 ? "double free" : "resize after free");
			die_report("violation", 97);
		}
		if (b->size != oldSize) {
			violation("L2", pc, (uintptr_t)ptr, "ddp_reallocate(ptr, %zu, %zu): block #%ld has size %zu, caller stated %zu", oldSize, newSize, (long)(b - blocks), b->size, oldSize);
			die_report("violation", 97);
		}
	} else if (oldSize != 0) {
		violation("L2", pc, 0, "ddp_reallocate(NULL, %zu, %zu): a size was stated for no block", oldSize, newSize);
		die_report("violation", 97);
	}
	in_ddp_realloc++;
	cur_pc = pc;
	void *res = __real_ddp_reallocate(ptr, oldSize, newSize);
	in_ddp_realloc--;
	if (ptr == NULL && newSize > 0) { n_alloc++; live_blocks++; }
	else if (ptr != NULL && newSize == 0) { n_free++; live_blocks--; }
	else if (ptr != NULL) { if (oldSize == newSize) n_shortcut++; else n_resize++; }
	sum_new += newSize;
	sum_old += ptr ? oldSize : 0;
	live_bytes += newSize;
	live_bytes -= ptr ? oldSize : 0;
	if (live_bytes > max_live_bytes) max_live_bytes = live_bytes;
	log_event(newSize == 0 ? 'F' : (ptr ? 'R' : 'A'), ptr, oldSize, newSize, res);
	return res;
}

/* ---------- traps ---------- */
static void on_trap(int sig, siginfo_t *si, void *uctx) {
	(void)sig;
	uintptr_t addr = (uintptr_t)si->si_addr;
	uintptr_t pc = 0;
#if defined(__x86_64__)
	pc = (uintptr_t)((ucontext_t *)uctx)->uc_mcontext.gregs[REG_RIP];
#endif
	/* a trap inside libc (memcmp, memcpy, strlen ...) is attributed to the innermost frame of the program itself */
	{
		extern char __executable_start, etext;
		if (!(pc >= (uintptr_t)&__executable_start && pc < (uintptr_t)&etext)) {
			void *bt[32];
			int n = backtrace(bt, 32);
			for (int i = 0; i < n; i++) {
				uintptr_t a = (uintptr_t)bt[i];
				if (a >= (uintptr_t)&__executable_start && a < (uintptr_t)&etext && !(a >= (uintptr_t)&on_trap && a < (uintptr_t)&on_trap + 2048)) {
					pc = a;
					break;
				}
			}
		}
	}
	if (in_arena(addr) && !(si->si_code == SI_KERNEL || addr == 0)) {
		block_t *b = find_slot(addr);
		if (b) {
			long off = (long)(addr - b->start);
			const char *what = b->state == ST_LIVE ? (off < 0 ? "before the start of live" : "past the end of live") : "inside freed";
			violation("L5", pc, addr, "access %s block #%ld (size %zu, allocated at event %llu%s): offset %ld", what, (long)(b - blocks), b->size,
			          (unsigned long long)b->seq_alloc, b->state == ST_LIVE ? "" : ", released earlier", off);
		} else {
			violation("L5", pc, addr, "access to heap arena address outside every block (arena offset %lx)", (unsigned long)(addr - ARENA_BASE));
		}
		die_report("violation", 97);
	}
	/* not a heap event (stack exhaustion, alignment trap, wild pointer): report and die like the default action */
	{
		char buf[96];
		int n = snprintf(buf, sizeof buf, "simheap: signal %d at %p pc %p (not a heap address)\n", sig, (void *)addr, (void *)pc);
		if (write(2, buf, n) < 0) {}
	}
	write_report("signal");
	_exit(128 + sig);
}

void (*__wrap_signal(int sig, void (*h)(int)))(int) {
	if (sig == SIGSEGV || sig == SIGBUS) return SIG_DFL; /* keep the simulator's handler */
	return __real_signal(sig, h);
}

/* with -std=c11 -D_POSIX_C_SOURCE glibc maps signal() to __sysv_signal() */
extern void (*__real___sysv_signal(int, void (*)(int)))(int);
void (*__wrap___sysv_signal(int sig, void (*h)(int)))(int) {
	if (sig == SIGSEGV || sig == SIGBUS) return SIG_DFL; /* keep the simulator's handler */
	return __real___sysv_signal(sig, h);
}

char *__wrap_setlocale(int cat, const char *loc) {
	char *r = __real_setlocale(cat, loc);
	if (r == NULL && loc != NULL && !cfg_locale_missing) r = __real_setlocale(cat, "C.utf8");
	return r;
}

int __wrap_ddp_ddpmain(void) {
	int r = __real_ddp_ddpmain();
	main_returned = 1;
	return r;
}

void __wrap_ddp_end_runtime(void) {
	if (!end_runtime_called) {
		end_runtime_called = 1;
		end_runtime_before_return = !main_returned;
	}
	__real_ddp_end_runtime();
}

/* ---------- report ---------- */
static void json_str(FILE *f, const char *s) {
	fputc('"', f);
	for (; *s; s++) {
		if (*s == '"' || *s == '\\') { fputc('\\', f); fputc(*s, f); }
		else if ((unsigned char)*s < 0x20) fprintf(f, "\\u%04x", *s);
		else fputc(*s, f);
	}
	fputc('"', f);
}

static void write_report(const char *term) {
	if (audited) return;
	audited = 1;
	if (!report_path) return;
	int fd = open(report_path, O_WRONLY | O_CREAT | O_TRUNC, 0644);
	if (fd < 0) return;
	FILE *f = fdopen(fd, "w");
	fprintf(f, "{\"term\":\"%s\",\"events\":%llu,\"allocs\":%llu,\"frees\":%llu,\"resizes\":%llu,\"shortcuts\":%llu,\"moved\":%llu,\"inplace\":%llu,\"reused\":%llu,",
	        term, (unsigned long long)seq, (unsigned long long)n_alloc, (unsigned long long)n_free, (unsigned long long)n_resize, (unsigned long long)n_shortcut,
	        (unsigned long long)n_moved, (unsigned long long)n_inplace, (unsigned long long)n_reused);
	fprintf(f, "\"refused\":%llu,\"refused_size\":%llu,", (unsigned long long)n_refused, (unsigned long long)refused_size);
	fprintf(f, "\"sum_new\":%llu,\"sum_old\":%llu,\"max_live_bytes\":%llu,\"slots\":%zu,", (unsigned long long)sum_new, (unsigned long long)sum_old, (unsigned long long)max_live_bytes, nblocks);
	fprintf(f, "\"policy\":\"place=%d fill=%d move=%d reuse=%d align=%zu locale_missing=%d\",", cfg_place, cfg_fill, cfg_move, cfg_reuse, cfg_align, cfg_locale_missing);
	fprintf(f, "\"live\":[");
	int first = 1, shown = 0;
	size_t nlive = 0;
	for (size_t i = 0; i < nblocks; i++) {
		if (blocks[i].state != ST_LIVE) continue;
		nlive++;
		if (shown < 20) {
			fprintf(f, "%s{\"block\":%zu,\"size\":%zu,\"event\":%llu,\"pc\":%lu}", first ? "" : ",", i, blocks[i].size, (unsigned long long)blocks[i].seq_alloc, (unsigned long)blocks[i].pc_alloc);
			first = 0;
			shown++;
		}
	}
	fprintf(f, "],\"nlive\":%zu,\"viol\":[", nlive);
	for (int i = 0; i < nviol; i++) {
		fprintf(f, "%s{\"inv\":\"%s\",\"pc\":%lu,\"addr\":%lu,\"text\":", i ? "," : "", viols[i].inv, (unsigned long)viols[i].pc, (unsigned long)viols[i].addr);
		json_str(f, viols[i].text);
		fputc('}', f);
	}
	fprintf(f, "]}\n");
	fclose(f);
}

static void audit(void) {
	const char *term = "exit";
	if (main_returned && end_runtime_called && !end_runtime_before_return) term = "normal";
	else if (end_runtime_called && end_runtime_before_return) term = "rterror";
	if (arena_ok) {
		/* L4 at exit: canaries of every live block; freed packed blocks must still hold the quarantine fill */
		for (size_t i = 0; i < nblocks && nviol == 0; i++) {
			block_t *b = &blocks[i];
			if (b->state == ST_LIVE) {
				uintptr_t bad = 0;
				if (cfg_place == PLACE_PACKED) { bad = check_canary(b->map_lo, b->start); if (!bad) bad = check_canary(b->start + b->size, b->map_hi); }
				else if (cfg_place == PLACE_GUARD_END) { bad = check_canary(b->map_lo, b->start); if (!bad) bad = check_canary(b->start + b->size, b->map_hi - PAGE); }
				else bad = check_canary(b->start + b->size, b->map_hi);
				if (bad) violation("L4", 0, bad, "write outside a live block found at exit: offset %ld of block #%zu (size %zu)", (long)(bad - b->start), i, b->size);
			} else if (cfg_place == PLACE_PACKED && cfg_reuse == REUSE_NEVER) {
				for (size_t k = 0; k < b->cap; k++)
					if (((unsigned char *)b->start)[k] != 0xDD) {
						violation("L4", 0, b->start + k, "write into released block #%zu (size %zu, released at event %llu) at offset %zu", i, b->size, (unsigned long long)b->seq_free, k);
						break;
					}
			}
		}
		if (strcmp(term, "normal") == 0 && nviol == 0) {
			size_t nlive = 0, bytes = 0;
			for (size_t i = 0; i < nblocks; i++) if (blocks[i].state == ST_LIVE) { nlive++; bytes += blocks[i].size; }
			if (nlive) violation("L3", 0, 0, "%zu block(s) (%zu bytes) never released at normal exit", nlive, bytes);
		}
	}
	write_report(nviol ? "violation" : term);
	if (nviol) {
		fflush(NULL);
		_exit(97);
	}
}

static int parse_kv(const char *pol, const char *key, const char *const *vals, int nvals, int def) {
	const char *p = pol ? strstr(pol, key) : NULL;
	if (!p) return def;
	p += strlen(key);
	for (int i = 0; i < nvals; i++) {
		size_t l = strlen(vals[i]);
		if (strncmp(p, vals[i], l) == 0 && (p[l] == 0 || p[l] == ';' || p[l] == ',')) return i;
	}
	return def;
}

static char altstack[1 << 16];

__attribute__((constructor)) static void simheap_init(void) {
	const char *s = getenv("SIMHEAP_SEED");
	if (s) cfg_seed = strtoull(s, NULL, 10);
	rnd_seed(cfg_seed);
	const char *pol = getenv("SIMHEAP_POLICY");
	static const char *const pv[] = {"guard_end", "guard_start", "packed"};
	static const char *const fv[] = {"zero", "a5", "junk"};
	static const char *const mv[] = {"always", "inplace", "coin"};
	static const char *const rv[] = {"never", "lifo"};
	static const char *const av[] = {"1", "8", "16"};
	cfg_place = parse_kv(pol, "place=", pv, 3, PLACE_GUARD_END);
	cfg_fill = parse_kv(pol, "fill=", fv, 3, FILL_JUNK);
	cfg_move = parse_kv(pol, "move=", mv, 3, MOVE_ALWAYS);
	cfg_reuse = parse_kv(pol, "reuse=", rv, 2, REUSE_NEVER);
	static const size_t aligns[] = {1, 8, 16};
	cfg_align = aligns[parse_kv(pol, "align=", av, 3, 2)];
	cfg_locale_missing = getenv("SIMHEAP_LOCALE_MISSING") != NULL;
	report_path = getenv("SIMHEAP_REPORT");
	log_path = getenv("SIMHEAP_LOG");
	if (log_path) logfd = open(log_path, O_WRONLY | O_CREAT | O_TRUNC, 0644);
	for (int i = 0; i < NCLASS; i++) freelist[i] = -1;
	void *a = mmap((void *)ARENA_BASE, ARENA_SIZE, PROT_NONE, MAP_PRIVATE | MAP_ANONYMOUS | MAP_NORESERVE | MAP_FIXED_NOREPLACE, -1, 0);
	if (a == MAP_FAILED || (uintptr_t)a != ARENA_BASE) {
		fprintf(stderr, "simheap: cannot reserve the arena at %p: %s\n", (void *)ARENA_BASE, strerror(errno));
		_exit(99);
	}
	bump = ARENA_BASE;
	packed_end = ARENA_BASE;
	arena_ok = 1;
	stack_t ss = {.ss_sp = altstack, .ss_size = sizeof altstack, .ss_flags = 0};
	sigaltstack(&ss, NULL);
	struct sigaction sa;
	memset(&sa, 0, sizeof sa);
	sa.sa_sigaction = on_trap;
	sa.sa_flags = SA_SIGINFO | SA_ONSTACK;
	sigaction(SIGSEGV, &sa, NULL);
	sigaction(SIGBUS, &sa, NULL);
	atexit(audit); /* registered before main: runs after the stdlib's own atexit handlers */
}
