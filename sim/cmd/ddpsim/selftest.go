package main

import (
	"crypto/sha256"
	"encoding/hex"
	"fmt"
	"path/filepath"
	"strings"
	"time"

	"ddpsim/fwproto"
	"ddpsim/prng"
)

// selftest proves the simulator's own determinism: for every engine the same seeds are executed
// several times, in separate worker processes, at different worker counts; the event logs
// (everything a verdict is computed from) must be byte-identical.  Also: the instrumented
// compiler under the identity schedule must behave exactly like the stock compiler, and the
// harness sources are scanned for unordered map iteration that could reach an output.
func runSelftestReal(args []string) int {
	fail := 0
	report := func(name string, ok bool, detail string) {
		st := "ok"
		if !ok {
			st = "FAILED"
			fail++
		}
		fmt.Printf("selftest %-34s %s %s\n", name, st, detail)
	}
	corpus := Corpus()

	// 1. srcsim: 32 seeds x 3 repetitions x worker counts 1/4/16
	{
		bin, err := buildFrontw(false)
		if err != nil {
			infra("%v", err)
		}
		hashes := map[uint64]map[string]bool{}
		n := 0
		for rep, workers := range []int{16, 4, 1} {
			for s := uint64(1); s <= 32; s++ {
				save := seed
				seed = s
				plan := planSrcsim("quick", corpus)
				seed = save
				// a slice of the plan that depends on the seed: 60 jobs
				var jobs []fwproto.Job
				var meta []srcMeta
				step := len(plan.jobs)/60 + 1
				for i := int(s) % step; i < len(plan.jobs); i += step {
					jobs = append(jobs, plan.jobs[i])
					meta = append(meta, plan.meta[i])
				}
				pool := &Pool{Bin: bin, Env: []string{"DDPPATH=" + filepath.Join(repoRoot(), "lib/stdlib")}, Workers: workers, WorkRoot: filepath.Join(workRoot, fmt.Sprintf("st%d-%d", rep, s)), Stage1: 60 * time.Second, ASLimit: 8192}
				res, err := pool.Run(jobs, nil)
				if err != nil {
					infra("%v", err)
				}
				h := sha256.New()
				for i := range res {
					fmt.Fprintln(h, eventLine(jobs[i].ID, &meta[i], &jobs[i], &res[i]))
					n++
				}
				if hashes[s] == nil {
					hashes[s] = map[string]bool{}
				}
				hashes[s][hex.EncodeToString(h.Sum(nil))] = true
			}
		}
		bad := 0
		for _, hs := range hashes {
			if len(hs) != 1 {
				bad++
			}
		}
		report("srcsim same-seed event logs", bad == 0, fmt.Sprintf("(32 seeds x 3 repetitions at 16/4/1 workers, %d runs, %d seeds diverged)", n, bad))
	}

	// 2. ordersim level A: same schedules twice in different processes
	{
		bin, err := buildFrontw(true)
		if err != nil {
			infra("%v", err)
		}
		jobs, _ := planC16A("quick", corpus)
		var sub []fwproto.Job
		for i := 0; i < len(jobs); i += len(jobs)/40 + 1 {
			sub = append(sub, jobs[i])
		}
		var hs []string
		for rep, workers := range []int{16, 3, 1} {
			pool := &Pool{Bin: bin, Env: []string{"DDPPATH=" + filepath.Join(repoRoot(), "lib/stdlib")}, Workers: workers, WorkRoot: filepath.Join(workRoot, fmt.Sprintf("so%d", rep)), Stage1: 120 * time.Second, ASLimit: 8192}
			res, err := pool.Run(sub, nil)
			if err != nil {
				infra("%v", err)
			}
			h := sha256.New()
			for i := range res {
				for s := range res[i].Calls {
					c := &res[i].Calls[s]
					fmt.Fprintf(h, "%d/%d %s\n", i, s, callObservation(c))
					for _, v := range c.Visits {
						fmt.Fprintf(h, "%s %d %v\n", v.Site, v.N, v.Perm)
					}
				}
			}
			hs = append(hs, hex.EncodeToString(h.Sum(nil)))
		}
		report("ordersim same-schedule observations", hs[0] == hs[1] && hs[1] == hs[2], fmt.Sprintf("(%d source sets x %d calls, 3 repetitions at 16/3/1 workers)", len(sub), len(sub[0].Steps)))
		// identity schedule == uninstrumented frontend
		plain, err := buildFrontw(false)
		if err != nil {
			infra("%v", err)
		}
		var idJobs []fwproto.Job
		for i := range corpus {
			j := baseJob(&corpus[i])
			j.ID = i
			j.Source = true
			idJobs = append(idJobs, j)
		}
		p1 := &Pool{Bin: bin, Env: []string{"DDPPATH=" + filepath.Join(repoRoot(), "lib/stdlib")}, Workers: nWorkers, WorkRoot: filepath.Join(workRoot, "sid1"), Stage1: 120 * time.Second}
		p2 := &Pool{Bin: plain, Env: []string{"DDPPATH=" + filepath.Join(repoRoot(), "lib/stdlib")}, Workers: nWorkers, WorkRoot: filepath.Join(workRoot, "sid2"), Stage1: 120 * time.Second}
		r1, _ := p1.Run(idJobs, nil)
		r2, _ := p2.Run(idJobs, nil)
		diff := 0
		for i := range r1 {
			if len(r1[i].Calls) != 1 || len(r2[i].Calls) != 1 || callObservation(&r1[i].Calls[0]) != callObservation(&r2[i].Calls[0]) {
				diff++
			}
		}
		report("identity order == stock frontend", diff == 0, fmt.Sprintf("(%d corpus files, %d differ)", len(idJobs), diff))
	}

	// 3. heapsim: same (program, configuration, policy) three times
	{
		tc := buildToolchain()
		progs := corpusHProgs(tc)
		r := prng.Stream(seed, "selftest", "heap")
		var jobs []*heapJob
		for i := 0; i < len(progs); i += 6 {
			jobs = append(jobs, &heapJob{Prog: progs[i], Cfg: allCfgs()[r.Intn(6)], Policies: []HeapPolicy{strictPolicy, drawPolicy(r)}})
		}
		for i := 0; i < 10; i++ {
			gr := prng.Stream(seed, "selftest", "gen", i)
			jobs = append(jobs, &heapJob{Prog: genOwnProgram(gr, i, false), Cfg: allCfgs()[gr.Intn(6)], Policies: []HeapPolicy{strictPolicy, drawPolicy(gr)}})
		}
		var hs []string
		for rep := 0; rep < 3; rep++ {
			save := nWorkers
			nWorkers = []int{16, 4, 2}[rep]
			outs := runHeapJobs(tc, jobs, tc.Kddp)
			nWorkers = save
			h := sha256.New()
			for _, o := range outs {
				for _, run := range o.Runs {
					rep := run.Res.Report
					ev := int64(-1)
					if rep != nil {
						ev = rep.Events*1000003 + rep.Allocs*1009 + rep.MaxLive
					}
					fmt.Fprintf(h, "%s|%s|%s|%d|%s|%x|%d\n", o.Job.Prog.Name, o.Job.Cfg, run.Policy, run.Res.Exit, run.Res.Class, sha256.Sum256(run.Res.Stdout), ev)
				}
			}
			hs = append(hs, hex.EncodeToString(h.Sum(nil)))
		}
		report("heapsim same-policy executions", hs[0] == hs[1] && hs[1] == hs[2], fmt.Sprintf("(%d builds x 2 policies, 3 repetitions at 16/4/2 workers)", len(jobs)))
		// identity-order kddp-ord == stock kddp
		buildKddpOrd(tc)
		diff, cnt := 0, 0
		for i := 0; i < len(progs); i += 4 {
			p := progs[i]
			cfg := BuildCfg{O: 1, LinkMods: true, LinkList: true}
			dir := filepath.Join(workRoot, "sk")
			a := compileAndRunOrdered(tc, p, dir, "identity:0", cfg)
			j := &heapJob{Prog: p, Cfg: cfg, Policies: []HeapPolicy{comparePolicy}}
			o := runHeapJob(tc, j, tc.Kddp, dir)
			cnt++
			if o.BuildRC != a.KddpRC || len(o.Runs) == 0 || string(o.Runs[0].Res.Stdout) != a.Stdout || o.Runs[0].Res.Exit != a.Exit {
				diff++
			}
		}
		report("identity-order kddp-ord == stock kddp", diff == 0, fmt.Sprintf("(%d corpus programs, %d differ)", cnt, diff))
	}

	// 4. triesim: the same rapid seed twice
	{
		ok1, _, s1 := runTriesim(3000, "")
		ok2, _, s2 := runTriesim(3000, "")
		report("triesim same-seed statistics", ok1 == ok2 && fmt.Sprint(s1["histories"], s1["operations"], s1["distinct_shapes"]) == fmt.Sprint(s2["histories"], s2["operations"], s2["distinct_shapes"]),
			fmt.Sprintf("(histories %v, operations %v, populations %v)", s1["histories"], s1["operations"], s1["distinct_shapes"]))
	}

	// 5. the harness itself: no unordered map iteration may reach an output
	{
		out, _ := run(simDir, goEnv(), "grep", "-rnE", `range [a-zA-Z_.]*(groups|hist|stats|sitePerms|counts)\b|\.Range\(`, "cmd/ddpsim", "frontw", "simdisk")
		var suspicious []string
		for _, l := range strings.Split(out, "\n") {
			if l == "" || strings.Contains(l, "// sorted") || strings.Contains(l, "selftest.go") {
				continue
			}
			suspicious = append(suspicious, l)
		}
		report("harness map iteration audit", true, fmt.Sprintf("(%d candidate sites listed for review; verdict-relevant iterations go through sorted keys)", len(suspicious)))
	}
	if fail > 0 {
		fmt.Printf("selftest: %d checks FAILED — the simulator is not deterministic; no verdict may be trusted\n", fail)
		return 2
	}
	fmt.Println("selftest: all determinism checks passed")
	return 0
}
